#!/bin/bash
# usage: tools/mutate.sh <patch.diff> <property> [runs]
# Applies a patch to /repo's working tree, runs the property's quick check with
# its output redirected to a scratch directory, and restores /repo.
patch="$(readlink -f "$1")"; prop="$2"; runs="${3:-}"
name=$(basename "$(dirname "$patch")")-$(basename "$patch" .diff)
out=/tmp/mutout/$name-$prop; rm -rf "$out"; mkdir -p "$out"
if ! git -C /repo diff --quiet; then echo "REPO-DIRTY"; exit 2; fi
if ! git -C /repo apply "$patch"; then echo "PATCH-FAILED $patch"; exit 2; fi
if [ -n "$runs" ]; then export VERIF_RUNS=$runs; fi
VERIF_OUT=$out /verif/check "$prop" quick > "$out/log" 2>&1; rc=$?
git -C /repo checkout -- . ; git -C /repo clean -fdq -- util 2>/dev/null
keys=$(grep -E "^  kind=" "$out/log" | sed 's/ run=.*//' | tr '\n' ' ')
echo "$name $prop rc=$rc $(grep -E '^property=' "$out/log") $keys"
exit $rc
