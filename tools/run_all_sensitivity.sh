#!/bin/bash
# Runs every planned mutant (mutants/*.diff) and every seeded change
# (seeded/*/patch.diff) through its property's quick check in scratch worktrees
# and writes mutants/RESULTS.md and seeded/RESULTS.md.
cd "$(dirname "$0")/.."
{
echo "# Planned mutants through the quick tier (tools/run_all_sensitivity.sh, $(date -u +%F))"
echo
echo "| mutant | property | exit | violation keys (first three) |"
echo "|---|---|---|---|"
for f in mutants/*.diff; do
  b=$(basename $f .diff); prop=$(echo ${b:0:3} | tr a-z A-Z)
  line=$(tools/mutate_wt.sh $f $prop 2>&1 | tail -1)
  rc=$(echo "$line" | sed -n 's/.* rc=\([0-9]*\).*/\1/p')
  keys=$(echo "$line" | grep -o 'key=[^ ]*' | head -3 | sed 's/key=//' | tr '\n' ' ')
  echo "| $b | $prop | $rc | $keys |"
done
} > mutants/RESULTS.md.tmp && mv mutants/RESULTS.md.tmp mutants/RESULTS.md
{
echo "# Seeded changes through the quick tier (tools/run_all_sensitivity.sh, $(date -u +%F))"
echo
echo "| id | property | exit | violation keys (first three) |"
echo "|---|---|---|---|"
for d in seeded/*/; do
  id=$(basename $d); prop=$(python3 -c "import json;print(json.load(open('${d}meta.json'))['breaks_property'])")
  line=$(tools/mutate_wt.sh $d/patch.diff $prop 2>&1 | tail -1)
  rc=$(echo "$line" | sed -n 's/.* rc=\([0-9]*\).*/\1/p')
  keys=$(echo "$line" | grep -o 'key=[^ ]*' | head -3 | sed 's/key=//' | tr '\n' ' ')
  echo "| $id | $prop | $rc | $keys |"
done
} > seeded/RESULTS.md.tmp && mv seeded/RESULTS.md.tmp seeded/RESULTS.md
