#!/bin/bash
# usage: tools/run_mutants.sh [pattern]  -- runs every mutants/<pattern>*.diff through its property's quick check
cd /verif
for f in mutants/${1:-}*.diff; do
  b=$(basename $f .diff); prop=$(echo ${b:0:3} | tr a-z A-Z)
  tools/mutate_wt.sh $f $prop ${VERIF_MUT_RUNS:-} 2>&1 | cut -c1-420
done
