#!/bin/bash
# usage: tools/mutate_wt.sh <patch.diff> <property> [runs]
# Like mutate.sh, but applies the patch in a private scratch worktree of /repo
# (VERIF_REPO), so /repo itself is never touched and several can run at once.
# Every replay file the check writes is then replayed in a fresh process
# against the same patched tree; the replay must reproduce (exit 1).
HERE="$(cd "$(dirname "${BASH_SOURCE[0]}")/.." && pwd)"
patch="$(readlink -f "$1")"; prop="$2"; runs="${3:-}"
name=$(basename "$(dirname "$patch")")-$(basename "$patch" .diff)
wt=$(mktemp -d /tmp/mutwt-XXXXXX); rmdir $wt
out=/tmp/mutout/$name-$prop; rm -rf "$out"; mkdir -p "$out"
git -C /repo worktree add -q --detach "$wt" HEAD || exit 2
if ! git -C "$wt" apply "$patch"; then echo "PATCH-FAILED $patch"; git -C /repo worktree remove --force "$wt"; exit 2; fi
if [ -n "$runs" ]; then export VERIF_RUNS=$runs; fi
VERIF_REPO=$wt VERIF_OUT=$out "$HERE/check" "$prop" ${VERIF_MUT_TIER:-quick} > "$out/log" 2>&1; rc=$?
rep=""
if [ -z "${VERIF_MUT_NOREPLAY:-}" ]; then
  for f in $(grep -o 'replay=[^ ]*' "$out/log" | sed 's/replay=//' | sort -u); do
    VERIF_REPO=$wt VERIF_OUT=$out "$HERE/check" replay "$f" > "$out/replay.$(basename $f).log" 2>&1; r=$?
    rep="$rep replay:$(basename $f .json)=$r"
  done
fi
git -C /repo worktree remove --force "$wt"
keys=$(grep -E "^  kind=" "$out/log" | sed 's/ run=.*//' | tr '\n' ' ')
echo "$name $prop rc=$rc $(grep -E '^property=' "$out/log") $keys$rep"
exit $rc
