#!/usr/bin/env python3
# usage: tools/mkmeta.py <id> <property> <change> <needs> [note]
# Writes seeded/<id>/meta.json from the files left by intake_seeded.sh / mutate_wt.sh
# (confirm.txt, check.txt; check.txt is the line of the latest run).
import json, re, sys, os
sid, prop, change, needs = sys.argv[1:5]
note = sys.argv[5] if len(sys.argv) > 5 else ""
d = f"/verif/seeded/{sid}"
confirm = " ".join(open(f"{d}/confirm.txt").read().split("\n")) if os.path.exists(f"{d}/confirm.txt") else ""
check = open(f"{d}/check.txt").read().strip()
keys = re.findall(r"key=(\S+)", check)
replays = dict((m[0], m[1] == "1") for m in re.findall(r"replay:(\S+?)=(\d)", check))
summary = re.findall(r"property=\S+ tier=.*?violating_runs=\d+", check)
meta = {
 "id": sid,
 "source": "independent sub-agent given only the property text, a focus hint and a scratch worktree",
 "breaks_property": prop,
 "change": change,
 "needs_to_manifest": needs,
 "confirmed": "tools/confirm_seeded.sh: " + confirm.strip(),
 "ran": f"tools/mutate_wt.sh seeded/{sid}/patch.diff {prop}",
 "detected": " rc=1 " in check,
 "violation_keys": keys,
 "replays_reproduced": replays,
 "check_summary": summary,
}
if note:
    meta["note"] = note
json.dump(meta, open(f"{d}/meta.json", "w"), indent=1, ensure_ascii=False)
print(sid, meta["detected"], keys[:3])
