#!/bin/bash
# usage: tools/intake_seeded.sh <id> <property>
# Takes the sub-agent's scratch worktree /tmp/seed-<id>: stores patch, demo and
# notes under seeded/<id>/, confirms the change (demo fails with / passes
# without / suite passes with), then runs the property's quick check against it.
id="$1"; prop="$2"; wt=/tmp/seed-$id; d=/verif/seeded/$id
mkdir -p $d
git -C $wt diff > $d/patch.diff
demo=$(git -C $wt status --porcelain | grep '^??' | awk '{print $2}' | grep '_test.go$' | head -1)
cp $wt/$demo $d/; cp $wt/NOTES.md $d/ 2>/dev/null
echo "$demo" > $d/demo_path.txt
/verif/tools/confirm_seeded.sh $wt $d 2>&1 | tail -3 | tee $d/confirm.txt
/verif/tools/mutate_wt.sh $d/patch.diff $prop 2>&1 | tail -1 | tee $d/check.txt
