#!/bin/bash
# usage: tools/run_benign.sh [pattern]
# Silence test on CORRECT changes: every benign/<pattern>*.diff (a realistic
# optimisation that preserves the properties, written by an independent
# sub-agent asked for exactly that) is applied in a scratch worktree and the
# quick tier of the properties named in its first line ("# props: C05 C18")
# - default all four - must stay silent (exit 0). Anything else is either a
# false alarm of the machinery or a defect in the "correct" change; both get
# looked at by hand.
cd /verif
for f in benign/${1:-}*.diff; do
  props=$(sed -n 's/^# props: //p' "${f%.diff}.props" 2>/dev/null); props=${props:-C05 C14 C18 C19}
  for p in $props; do
    VERIF_MUT_NOREPLAY=1 tools/mutate_wt.sh $f $p 2>&1 | tail -1 | cut -c1-400
  done
done
