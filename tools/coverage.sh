#!/bin/bash
# usage: tools/coverage.sh [props...]   (default: all four)
# Generator audit: runs the quick tier of each property with reach probes at
# every block of the code under test (util/{semver,maven,pypi,resolve}) and
# lists, per file, the blocks no simulated run entered. Output under
# /tmp/verif-cover/<prop>. Not a check (the probe counters order the tasks).
out=/tmp/verif-cover; rm -rf $out; mkdir -p $out
props="${@:-C05 C14 C18 C19}"
for p in $props; do
  mkdir -p $out/$p
  VERIF_PROBES=$out/$p VERIF_OUT=$out/$p/ev /verif/check $p quick | tail -n 1
done
python3 - $out $props <<'PY'
import sys,json,glob,collections,os
out=sys.argv[1]
allhit=collections.Counter(); sites=set()
for p in sys.argv[2:]:
    sites|=set(json.load(open(f'{out}/{p}/sites.json')))
    hit=collections.Counter()
    for f in glob.glob(f'{out}/{p}/counts-*.json'):
        for k,v in json.load(open(f)).items(): hit[k]+=v
    allhit.update(hit)
    json.dump(hit,open(f'{out}/{p}/hit.json','w'))
byfile=collections.defaultdict(lambda:[0,0,[]])
for s in sorted(sites, key=lambda x:(x.rsplit(':',1)[0],int(x.rsplit(':',1)[1]))):
    f,l=s.rsplit(':',1)
    byfile[f][1]+=1
    if allhit[s]: byfile[f][0]+=1
    else: byfile[f][2].append(int(l))
for f,(h,t,miss) in sorted(byfile.items()):
    print('%-42s %4d/%4d  unreached lines: %s'%(f,h,t,' '.join(map(str,miss))))
PY
