#!/usr/bin/env python3
"""mkmut.py <name> <file-relative-to-/repo> : reads a JSON list of [old,new] replacement pairs from stdin,
applies them to the file, writes git diff to /verif/mutants/<name>.diff, verifies it compiles, and restores."""
import sys,json,subprocess,os
name,rel=sys.argv[1],sys.argv[2]
pairs=json.load(sys.stdin)
p=os.path.join('/repo',rel)
s=open(p).read()
for old,new in pairs:
    if old not in s:
        print("OLD NOT FOUND:",old[:80]); sys.exit(1)
    s=s.replace(old,new,1)
open(p,'w').write(s)
env=dict(os.environ,GOFLAGS='-mod=mod',GOPROXY='off',GOSUMDB='off',GOTOOLCHAIN='local')
r=subprocess.run(['go','build','./...'],cwd='/repo/util/resolve',env=env,capture_output=True,text=True)
d=subprocess.run(['git','-C','/repo','diff'],capture_output=True,text=True).stdout
subprocess.run(['git','-C','/repo','checkout','--','.'])
if r.returncode!=0:
    print("DOES NOT COMPILE:",r.stderr[:2000]); sys.exit(1)
open(f'/verif/mutants/{name}.diff','w').write(d)
print("wrote",name,len(d.splitlines()),"lines")
