#!/bin/bash
# usage: tools/seed_sweep.sh <tier> <seed>...   -- silence self-test: every check at several seeds on the current tree
tier=$1; shift
cd /verif
for seed in "$@"; do
  for p in C05 C14 C18 C19; do
    VERIF_SEED=$seed VERIF_OUT=/tmp/seedsweep/$tier-$seed ./check $p $tier 2>&1 | grep -E "^property=|VIOLATION|INFRASTRUCTURE|KNOWN" | sed "s/^/seed=$seed /"
  done
done
