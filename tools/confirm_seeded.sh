#!/bin/bash
# usage: tools/confirm_seeded.sh <worktree> <outdir>
# Confirms a seeded change: demo fails with the change, passes without it, and
# the existing suite passes with the change.
export GOFLAGS=-mod=mod GOPROXY=off GOSUMDB=off GOTOOLCHAIN=local
wt="$1"; out="$2"
cd "$wt" || exit 2
demo=$(git status --porcelain | grep '^??' | awk '{print $2}' | grep '_test.go$' | head -1)
[ -z "$demo" ] && { echo "NO-DEMO"; exit 2; }
pkgdir=$(dirname "$demo")
race=""; grep -qi "race" "$out/NOTES.md" && grep -q "\-race" "$out/NOTES.md" && race="-race"
echo "demo=$demo pkg=$pkgdir"
git diff > /tmp/confirm.diff
if ! diff -q <(git diff) "$out/patch.diff" >/dev/null; then echo "NOTE: worktree diff differs from patch.diff (using worktree diff)"; fi
(cd "$pkgdir" && go test -vet=off -count=1 -run 'Seeded' . >/tmp/confirm_with.log 2>&1); with=$?
git apply -R /tmp/confirm.diff
(cd "$pkgdir" && go test -vet=off -count=1 -run 'Seeded' . >/tmp/confirm_without.log 2>&1); without=$?
git apply /tmp/confirm.diff
suite=0
for m in util/semver util/maven util/pypi util/resolve; do (cd $m && go test -vet=off -count=1 -skip 'Seeded' ./... >/tmp/confirm_suite.log 2>&1) || suite=1; done
echo "with_change_demo_rc=$with without_change_demo_rc=$without suite_with_change_rc=$suite"
[ $with -ne 0 ] && [ $without -eq 0 ] && [ $suite -eq 0 ] && echo CONFIRMED || echo NOT-CONFIRMED
