#!/bin/bash
# usage: tools/run_seeded_parallel.sh [jobs]   -- every seeded/<id>/patch.diff through its property's
# quick check (scratch worktrees, replays included), <jobs> at a time (shrinking and replaying are
# mostly single-process work), then seeded/RESULTS.md.
cd "$(dirname "$0")/.."
jobs=${1:-4}
out=$(mktemp -d /tmp/seedpar-XXXXXX)
ls -d seeded/*/ | while read d; do
  id=$(basename $d); prop=$(python3 -c "import json;print(json.load(open('${d}meta.json'))['breaks_property'])")
  echo "$id $prop"
done > $out/list
cat $out/list | xargs -P $jobs -L 1 bash -c 'tools/mutate_wt.sh seeded/$0/patch.diff $1 2>&1 | tail -1 > '$out'/$0.line'
{
echo "# Seeded changes through the quick tier (tools/run_seeded_parallel.sh, $(date -u +%F))"
echo
echo "| id | property | exit | violating runs | violation keys (first three) | replays reproduced |"
echo "|---|---|---|---|---|---|"
while read id prop; do
  line=$(cat $out/$id.line)
  rc=$(echo "$line" | sed -n 's/.* rc=\([0-9]*\).*/\1/p')
  vr=$(echo "$line" | sed -n 's/.*violating_runs=\([0-9]*\).*/\1/p')
  keys=$(echo "$line" | grep -o 'key=[^ ]*' | head -3 | sed 's/key=//' | tr '\n' ' ')
  reps=$(echo "$line" | grep -o 'replay:[^ ]*=[0-9]' | sed 's/.*=//' | tr '\n' ' ')
  echo "| $id | $prop | $rc | $vr | $keys | $reps |"
done < $out/list
} > seeded/RESULTS.md
rm -rf $out
