// Package gen draws package universes from the choice tape. Every generator
// keeps "0 = simplest": zeroing tape entries yields fewer packages, fewer
// versions, fewer requirements and plain features.
package gen

import (
	"fmt"
	"strings"

	"deps.dev/util/resolve"
	"deps.dev/util/resolve/dep"
	"deps.dev/util/resolve/version"
	"verif/sim/kernel"
	"verif/sim/uni"
)

// Knobs bound the generated universes.
type Knobs struct {
	MaxPkgs int
	MaxVers int
	MaxReqs int
}

// Per-universe flavours, drawn at the start of each generator.
var (
	hubFlavour bool
	preFlavour bool
)

func drawFlavours(t *kernel.Tape) {
	hubFlavour = t.Bool(1, 3)
	preFlavour = t.Bool(1, 3)
}

var baseNames = []string{"alpha", "bravo", "chuck", "delta", "echo", "fox", "golf", "hotel", "india", "juliet", "kilo", "lima"}

type triple struct {
	M, m, p int
	pre     int // 0 none, else index into the system's prerelease forms
	preN    int
}

func (a triple) same(b triple) bool { return a == b }

// drawTriples draws n pairwise distinct version tuples. Index 0 is always
// 1.0.0 so that a zeroed tape gives the plainest universe.
func drawTriples(t *kernel.Tape, n int, preKinds int) []triple {
	out := []triple{{M: 1}}
	for len(out) < n {
		c := triple{M: 1 + t.Choose(3), m: t.Choose(3), p: t.Choose(3)}
		if preKinds > 0 && ((preFlavour && t.Bool(1, 2)) || t.Bool(1, 5)) {
			c.pre = 1 + t.Choose(preKinds)
			c.preN = 1 + t.Choose(2)
		}
		dup := false
		for _, o := range out {
			if o.same(c) {
				dup = true
				break
			}
		}
		if dup {
			// deterministic fallback: bump the major until it is free
			for {
				c.M++
				free := true
				for _, o := range out {
					if o.same(c) {
						free = false
					}
				}
				if free {
					break
				}
			}
		}
		out = append(out, c)
	}
	return out
}

func hasVersion(vs []uni.Ver, v string) bool {
	for _, x := range vs {
		if x.V == v {
			return true
		}
	}
	return false
}

func kv(k int, v string) uni.KV { return uni.KV{K: k, V: v} }

// pickTarget picks the package a requirement of package i points to: mostly a
// later package (the universe is mostly a DAG), sometimes any package.
func pickTarget(t *kernel.Tape, i, n int) int {
	if n == 1 {
		return 0
	}
	// hub flavour: half of the requirements point at the last one or two
	// packages, so that several dependents constrain the same package
	// (diamonds, conflicts, multi-requirement criteria)
	if hubFlavour && t.Bool(1, 2) {
		h := n - 1 - t.Choose(2)
		if h < 0 {
			h = 0
		}
		return h
	}
	if i < n-1 && !t.Bool(1, 8) {
		return i + 1 + t.Choose(n-1-i)
	}
	return t.Choose(n)
}

// ---------------------------------------------------------------- npm

func npmVer(c triple) string {
	s := fmt.Sprintf("%d.%d.%d", c.M, c.m, c.p)
	switch c.pre {
	case 1:
		s += fmt.Sprintf("-alpha.%d", c.preN)
	case 2:
		s += fmt.Sprintf("-beta.%d", c.preN)
	case 3:
		s += fmt.Sprintf("-rc.%d", c.preN)
	}
	return s
}

var distTags = []string{"next", "latest-1", "beta", "canary"}

func npmReq(t *kernel.Tape, target []triple, tv int) string {
	c := target[tv]
	base := fmt.Sprintf("%d.%d.%d", c.M, c.m, c.p)
	full := npmVer(c)
	switch t.Choose(14) {
	case 0:
		return "^" + base
	case 1:
		return "*"
	case 2:
		return "~" + base
	case 3:
		return ">=" + base
	case 4:
		return full
	case 5:
		return fmt.Sprintf("%d.x", c.M)
	case 6:
		return fmt.Sprintf("<=%s", base)
	case 7:
		return fmt.Sprintf(">=%d.0.0 <%d.0.0", c.M, c.M+1)
	case 8:
		o := target[t.Choose(len(target))]
		return fmt.Sprintf("%s || %s", full, npmVer(o))
	case 9:
		return fmt.Sprintf("%s - %d.9.9", base, c.M+1)
	case 10:
		// a dist-tag requirement; mostly "latest", sometimes another tag
		// (which may or may not exist in the target package)
		if t.Bool(1, 4) {
			return distTags[t.Choose(len(distTags))]
		}
		return "latest"
	case 11:
		return "^" + full
	case 12:
		return fmt.Sprintf("^%d.0.0", c.M+7) // matches nothing
	default:
		return fmt.Sprintf(">%s", base)
	}
}

// NPM draws an npm universe.
func NPM(t *kernel.Tape, k Knobs) *uni.Spec {
	drawFlavours(t)
	s := &uni.Spec{Sys: resolve.NPM}
	n := t.Range(3, k.MaxPkgs)
	names := make([]string, n)
	for i := range names {
		names[i] = baseNames[i%len(baseNames)]
		switch {
		case i >= len(baseNames):
			names[i] = fmt.Sprintf("%s%d", names[i], i)
		case t.Bool(1, 12):
			names[i] = "@sc/" + names[i]
		case t.Bool(1, 16):
			names[i] = string(names[i][0]-32) + names[i][1:]
		}
	}
	trip := make([][]triple, n)
	for i := range trip {
		trip[i] = drawTriples(t, t.Range(1, k.MaxVers), 3)
	}
	for i := 0; i < n; i++ {
		p := uni.Pkg{Name: names[i]}
		latest := -1
		if t.Bool(1, 2) {
			latest = t.Choose(len(trip[i]))
		}
		// Further dist-tags: each tag points at one version of the package, a
		// version may carry several (comma separated). "latest-1" is a tag
		// that merely contains the word latest.
		extraTag := map[int][]string{}
		if t.Bool(1, 3) {
			nt := t.Range(1, 3)
			used := map[string]bool{}
			for x := 0; x < nt; x++ {
				tg := distTags[t.Choose(len(distTags))]
				if used[tg] {
					continue
				}
				used[tg] = true
				vi := t.Choose(len(trip[i]))
				extraTag[vi] = append(extraTag[vi], tg)
			}
		}
		for vi, c := range trip[i] {
			v := uni.Ver{V: npmVer(c)}
			if vi > 0 && t.Bool(1, 24) {
				v.V = fmt.Sprintf("%d.%d.%d.bad", c.M, c.m, c.p) // not a semver: ordered after parsable ones
			}
			if hasVersion(p.Vers, v.V) {
				continue // version keys of one package are pairwise distinct
			}
			var tags []string
			if vi == latest {
				tags = append(tags, "latest")
			}
			tags = append(tags, extraTag[vi]...)
			if len(tags) > 0 {
				v.Attrs = append(v.Attrs, kv(int(version.Tags), strings.Join(tags, ",")))
			}
			// deprecated versions; the one tagged latest more often than the
			// others (a deprecated latest is where the tag changes the pick)
			if (vi == latest && t.Bool(1, 3)) || (vi != latest && t.Bool(1, 8)) {
				v.Attrs = append(v.Attrs, kv(int(version.Blocked), ""))
			}
			nr := t.Range(0, k.MaxReqs)
			if i == 0 && nr == 0 {
				nr = 1
			}
			for r := 0; r < nr; r++ {
				tp := pickTarget(t, i, n)
				rq := uni.Req{Name: names[tp], Req: npmReq(t, trip[tp], t.Choose(len(trip[tp])))}
				switch t.Choose(16) {
				case 1:
					rq.Type = []uni.KV{kv(int(dep.Opt), "")}
				case 2:
					rq.Type = []uni.KV{kv(int(dep.Dev), "")}
				case 3:
					rq.Type = []uni.KV{kv(int(dep.Scope), "peer")}
				case 4:
					rq.Type = []uni.KV{kv(int(dep.Scope), "bundle")}
					rq.Req = "*"
				case 5, 6:
					// alias: installed under another name, possibly one that
					// collides with a real package
					al := baseNames[t.Choose(len(baseNames))]
					if t.Bool(1, 2) {
						al = "al-" + al
					}
					rq.Type = []uni.KV{kv(int(dep.KnownAs), al)}
				case 7:
					rq.Type = []uni.KV{kv(int(dep.Opt), ""), kv(int(dep.Dev), "")}
				}
				v.Reqs = append(v.Reqs, rq)
			}
			p.Vers = append(p.Vers, v)
		}
		s.Pkgs = append(s.Pkgs, p)
	}
	// Bundled (derived) packages: the bundling version P@v gets a regular
	// requirement on the mangled package "P>v>child", whose single version
	// records the package it derives from.
	if t.Bool(1, 3) {
		nb := t.Range(1, 3)
		for b := 0; b < nb; b++ {
			pi := t.Choose(n)
			vi := t.Choose(len(s.Pkgs[pi].Vers))
			ci := t.Choose(n)
			child := names[ci]
			cv := npmVer(trip[ci][t.Choose(len(trip[ci]))])
			if t.Bool(1, 4) {
				cv = "9.9.9" // a version that exists only inside the bundle
			}
			alias := child
			if t.Bool(1, 5) {
				alias = "al-" + child
			}
			mangled := fmt.Sprintf("%s>%s>%s", names[pi], s.Pkgs[pi].Vers[vi].V, alias)
			dupe := false
			for _, q := range s.Pkgs {
				if q.Name == mangled {
					dupe = true
				}
			}
			if dupe {
				continue
			}
			bp := uni.Pkg{Name: mangled, Vers: []uni.Ver{{V: cv, Attrs: []uni.KV{kv(int(version.DerivedFrom), child)}}}}
			// the bundled copy has its own requirements
			nr := t.Range(0, 2)
			for r := 0; r < nr; r++ {
				tp := t.Choose(n)
				bp.Vers[0].Reqs = append(bp.Vers[0].Reqs, uni.Req{Name: names[tp], Req: npmReq(t, trip[tp], t.Choose(len(trip[tp])))})
			}
			par := &s.Pkgs[pi].Vers[vi]
			par.Reqs = append(par.Reqs, uni.Req{Name: mangled, Req: cv})
			if t.Bool(1, 2) {
				par.Reqs = append(par.Reqs, uni.Req{Name: child, Req: "*", Type: []uni.KV{kv(int(dep.Scope), "bundle")}})
			}
			if t.Bool(1, 3) {
				// nested bundle
				gi := t.Choose(n)
				gv := npmVer(trip[gi][t.Choose(len(trip[gi]))])
				gm := mangled + ">" + names[gi]
				gp := uni.Pkg{Name: gm, Vers: []uni.Ver{{V: gv, Attrs: []uni.KV{kv(int(version.DerivedFrom), names[gi])}}}}
				bp.Vers[0].Reqs = append(bp.Vers[0].Reqs, uni.Req{Name: gm, Req: gv})
				s.Pkgs = append(s.Pkgs, bp, gp)
				continue
			}
			s.Pkgs = append(s.Pkgs, bp)
		}
	}
	return s
}

// ---------------------------------------------------------------- Maven

func mavenVer(c triple) string {
	s := fmt.Sprintf("%d.%d.%d", c.M, c.m, c.p+1)
	switch c.pre {
	case 1:
		s += fmt.Sprintf("-alpha-%d", c.preN)
	case 2:
		s += fmt.Sprintf("-beta-%d", c.preN)
	case 3:
		s += fmt.Sprintf("-rc-%d", c.preN)
	case 4:
		s += "-SNAPSHOT"
	}
	return s
}

func mavenReq(t *kernel.Tape, target []triple, tv int) string {
	c := target[tv]
	full := mavenVer(c)
	switch t.Choose(10) {
	case 0, 1, 2:
		return full // soft requirement
	case 3:
		return fmt.Sprintf("[%s,%d.0.0)", full, c.M+1)
	case 4:
		return fmt.Sprintf("[%s]", full)
	case 5:
		return fmt.Sprintf("(,%s]", full)
	case 6:
		return fmt.Sprintf("[%s,)", full)
	case 7:
		return fmt.Sprintf("[%d.0.0,%d.0.0),(%d.0.0,%d.9.9]", c.M, c.M+1, c.M+1, c.M+1)
	case 8:
		return fmt.Sprintf("%d.%d.%d", c.M, c.m, c.p+7) // soft, unlisted version
	default:
		return fmt.Sprintf("[%d.0.0,%d.0.0)", c.M+6, c.M+7) // hard, matches nothing
	}
}

// Maven draws a Maven universe.
func Maven(t *kernel.Tape, k Knobs) *uni.Spec {
	drawFlavours(t)
	s := &uni.Spec{Sys: resolve.Maven}
	n := t.Range(3, k.MaxPkgs)
	names := make([]string, n)
	for i := range names {
		g := "org.ex"
		if t.Bool(1, 4) {
			g = "com.other"
		}
		names[i] = fmt.Sprintf("%s:%s", g, baseNames[i%len(baseNames)])
		if i >= len(baseNames) {
			names[i] = fmt.Sprintf("%s%d", names[i], i)
		}
	}
	trip := make([][]triple, n)
	for i := range trip {
		trip[i] = drawTriples(t, t.Range(1, k.MaxVers), 4)
	}
	registries := t.Bool(1, 4)
	drawExcl := func() string {
		// exclusion of some package, exact or wildcard
		ex := names[t.Choose(n)]
		switch t.Choose(4) {
		case 1:
			ex = ex[:indexByte(ex, ':')] + ":*"
		case 2:
			ex = "*:" + ex[indexByte(ex, ':')+1:]
		case 3:
			ex = ex + "|" + names[t.Choose(n)]
		}
		return ex
	}
	// exclusion flavour: many dependencies carry exclusions and the same few
	// exclusion strings recur on different edges (nested under one another),
	// as they do in real POMs that exclude a logging or XML API everywhere
	var exclPool []string
	if t.Bool(1, 5) {
		for x, m := 0, t.Range(1, 3); x < m; x++ {
			exclPool = append(exclPool, drawExcl())
		}
	}
	for i := 0; i < n; i++ {
		p := uni.Pkg{Name: names[i]}
		for _, c := range trip[i] {
			v := uni.Ver{V: mavenVer(c)}
			if hasVersion(p.Vers, v.V) {
				continue
			}
			if registries && t.Bool(1, 3) {
				// where the version can be fetched and which repositories its
				// pom declares for its dependencies (multi-registry resolution)
				regs := []string{"r1", "r2", "r1|r2", "dep:r2", "r1|dep:r2", "default:r1|r1", "https://repo.maven.apache.org/maven2/", "r2|dep:r1|dep:r2"}
				v.Attrs = append(v.Attrs, kv(int(version.Registries), regs[t.Choose(len(regs))]))
			}
			nr := t.Range(0, k.MaxReqs)
			if i == 0 && nr == 0 {
				nr = 1
			}
			for r := 0; r < nr; r++ {
				tp := pickTarget(t, i, n)
				rq := uni.Req{Name: names[tp], Req: mavenReq(t, trip[tp], t.Choose(len(trip[tp])))}
				kind := t.Choose(20)
				if exclPool != nil && kind >= 12 && kind < 18 {
					kind = 7
				}
				switch kind {
				case 1:
					rq.Type = []uni.KV{kv(int(dep.Test), "")}
				case 2:
					rq.Type = []uni.KV{kv(int(dep.Opt), "")}
				case 3:
					rq.Type = []uni.KV{kv(int(dep.Scope), "provided")}
				case 4:
					rq.Type = []uni.KV{kv(int(dep.Scope), "runtime")}
				case 5:
					rq.Type = []uni.KV{kv(int(dep.MavenClassifier), "tests")}
				case 6:
					ty := []string{"war", "pom", "test-jar", "jar"}[t.Choose(4)]
					rq.Type = []uni.KV{kv(int(dep.MavenArtifactType), ty)}
				case 7, 8:
					var ex string
					if exclPool != nil {
						ex = exclPool[t.Choose(len(exclPool))]
					} else {
						ex = drawExcl()
					}
					rq.Type = []uni.KV{kv(int(dep.MavenExclusions), ex)}
				case 9, 10:
					// dependencyManagement entry: pins the version of a
					// transitive declaration when this version is the root
					rq.Req = mavenVer(trip[tp][t.Choose(len(trip[tp]))])
					rq.Type = []uni.KV{kv(int(dep.MavenDependencyOrigin), "management")}
				case 11:
					rq.Type = []uni.KV{kv(int(dep.MavenDependencyOrigin), "import")}
				}
				// A declaration often carries more than one of these: a scope
				// with exclusions, a classifier with a type, a managed entry
				// with a scope or exclusions.
				if t.Bool(1, 4) {
					has := func(k int) bool {
						for _, x := range rq.Type {
							if x.K == k {
								return true
							}
						}
						return false
					}
					add := func(k int, v string) {
						if !has(k) {
							rq.Type = append(rq.Type, kv(k, v))
						}
					}
					switch t.Choose(6) {
					case 0:
						add(int(dep.Scope), []string{"provided", "runtime", "system"}[t.Choose(3)])
					case 1:
						if exclPool != nil {
							add(int(dep.MavenExclusions), exclPool[t.Choose(len(exclPool))])
						} else {
							add(int(dep.MavenExclusions), drawExcl())
						}
					case 2:
						add(int(dep.MavenClassifier), "tests")
					case 3:
						add(int(dep.MavenArtifactType), []string{"pom", "test-jar", "jar"}[t.Choose(3)])
					case 4:
						add(int(dep.Opt), "")
					default:
						add(int(dep.Test), "")
					}
				}
				v.Reqs = append(v.Reqs, rq)
			}
			p.Vers = append(p.Vers, v)
		}
		s.Pkgs = append(s.Pkgs, p)
	}
	return s
}

func indexByte(s string, c byte) int {
	for i := 0; i < len(s); i++ {
		if s[i] == c {
			return i
		}
	}
	return -1
}

// ---------------------------------------------------------------- PyPI

func pypiVer(c triple) string {
	s := fmt.Sprintf("%d.%d.%d", c.M, c.m, c.p+1)
	switch c.pre {
	case 1:
		s += fmt.Sprintf("a%d", c.preN)
	case 2:
		s += fmt.Sprintf("b%d", c.preN)
	case 3:
		s += fmt.Sprintf("rc%d", c.preN)
	case 4:
		s += fmt.Sprintf(".post%d", c.preN)
	case 5:
		s += fmt.Sprintf(".dev%d", c.preN)
	}
	return s
}

func pypiReq(t *kernel.Tape, target []triple, tv int) string {
	c := target[tv]
	full := pypiVer(c)
	base := fmt.Sprintf("%d.%d.%d", c.M, c.m, c.p+1)
	if preFlavour && t.Bool(1, 3) {
		switch t.Choose(5) {
		case 0:
			return ">=" + base + "a1"
		case 1:
			return "<" + base + "rc2"
		case 2:
			return "==" + full
		case 3:
			return fmt.Sprintf(">=%d.0.0.dev1", c.M)
		default:
			return "<=" + fmt.Sprintf("%d.%d.%drc1", c.M, c.m, c.p+2)
		}
	}
	switch t.Choose(13) {
	case 0:
		return ""
	case 1:
		return ">=" + base
	case 2:
		return "==" + full
	case 3:
		return "<" + fmt.Sprintf("%d.0.0", c.M+1)
	case 4:
		return "~=" + base
	case 5:
		return "!=" + full
	case 6:
		return fmt.Sprintf(">=%s,<%d.0.0", base, c.M+1)
	case 7:
		return fmt.Sprintf("==%d.*", c.M)
	case 8:
		return fmt.Sprintf(">=%d.0.0rc1", c.M) // admits prereleases
	case 9:
		return "<=" + full
	case 10:
		return ">" + base
	case 11:
		return fmt.Sprintf(">=%d.0.0", c.M+7) // matches nothing
	default:
		return fmt.Sprintf("<%s", base)
	}
}

var pypiMarkers = []string{
	`python_version >= "3.6"`,
	`python_version < "3"`,
	`sys_platform == "win32"`,
	`sys_platform != "win32"`,
	`os_name == "posix"`,
	`extra == "test"`,
	`extra == "doc"`,
	`python_version >= "2.7" and os_name == "posix"`,
	`sys_platform == "win32" or python_version >= "3"`,
	`(python_version < "3" or extra == "test") and os_name != "nt"`,
	`python_full_version >= "3.6.1"`,
	`implementation_name == "cpython"`,
	`platform_machine in "x86_64 amd64"`,
	// ordering operators on strings, not in, reversed operands, ~= and ===
	// on versions, single quotes, nesting, invalid forms
	`platform_machine not in "arm64 aarch64"`,
	`os_name >= "nt"`,
	`sys_platform < "linux2"`,
	`sys_platform <= 'linux'`,
	`platform_system > "Darwin"`,
	`"win" in sys_platform`,
	`"3.6" <= python_version`,
	`python_version ~= "3.6"`,
	`python_version === "3.8"`,
	`python_version != "3.5" and python_full_version < "4"`,
	`python_version not in "2.6 2.7 3.0"`,
	`(os_name == "posix" and (sys_platform == "linux" or sys_platform == "darwin")) or extra == "doc"`,
	`implementation_version >= "3.6.0"`,
	`platform_python_implementation == "CPython" and platform_release != ""`,
	`extra != "test"`,             // rejected: extra only with ==
	`os_name ~= "posix"`,          // rejected: ~= must compare versions
	`python_version >= "3.6" and`, // rejected: truncated
}

// PyPI draws a PyPI universe.
func PyPI(t *kernel.Tape, k Knobs) *uni.Spec {
	drawFlavours(t)
	s := &uni.Spec{Sys: resolve.PyPI}
	n := t.Range(3, k.MaxPkgs)
	names := make([]string, n)
	for i := range names {
		names[i] = baseNames[i%len(baseNames)]
		if i >= len(baseNames) {
			names[i] = fmt.Sprintf("%s%d", names[i], i)
		}
	}
	if n > 3 && t.Bool(1, 12) {
		names[n-1] = "setuptools" // the resolver delays this name
	}
	trip := make([][]triple, n)
	for i := range trip {
		trip[i] = drawTriples(t, t.Range(1, k.MaxVers), 5)
	}
	// Recurring-requirement flavour: a few requirement strings on one of the
	// first packages (one of them admitting prereleases) are placed by many
	// versions all over the universe, that package's own dependents included,
	// so that the same (package, requirement) pair is met from different
	// roots, through cycles back to a root, and together with other
	// requirements on the same package.
	recTarget := -1
	var recPool []string
	if t.Bool(1, 5) {
		recTarget = t.Choose(2)
		c := trip[recTarget][t.Choose(len(trip[recTarget]))]
		recPool = append(recPool, fmt.Sprintf(">=%d.%d.%drc1", c.M, c.m, c.p+1), fmt.Sprintf(">=%d.%d.%d", c.M, c.m, c.p+1))
		if t.Bool(1, 2) {
			recPool = append(recPool, pypiReq(t, trip[recTarget], t.Choose(len(trip[recTarget]))))
		}
	}
	for i := 0; i < n; i++ {
		p := uni.Pkg{Name: names[i]}
		for _, c := range trip[i] {
			v := uni.Ver{V: pypiVer(c)}
			if hasVersion(p.Vers, v.V) {
				continue
			}
			nr := t.Range(0, k.MaxReqs)
			if i == 0 && nr == 0 {
				nr = 1
			}
			for r := 0; r < nr; r++ {
				tp := pickTarget(t, i, n)
				rq := uni.Req{Name: names[tp], Req: pypiReq(t, trip[tp], t.Choose(len(trip[tp])))}
				if recTarget >= 0 && t.Bool(1, 3) {
					rq = uni.Req{Name: names[recTarget], Req: recPool[t.Choose(len(recPool))]}
				}
				if t.Bool(1, 4) {
					rq.Type = append(rq.Type, kv(int(dep.Environment), pypiMarkers[t.Choose(len(pypiMarkers))]))
				}
				if t.Bool(1, 8) {
					ex := []string{"test", "doc", "test,doc"}[t.Choose(3)]
					rq.Type = append(rq.Type, kv(int(dep.EnabledDependencies), ex))
				}
				v.Reqs = append(v.Reqs, rq)
			}
			p.Vers = append(p.Vers, v)
		}
		s.Pkgs = append(s.Pkgs, p)
	}
	return s
}

// Perm draws a permutation of n elements (identity for a zero tape).
func Perm(t *kernel.Tape, n int) []int {
	p := make([]int, n)
	for i := range p {
		p[i] = i
	}
	for i := 0; i < n-1; i++ {
		j := i + t.Choose(n-i)
		p[i], p[j] = p[j], p[i]
	}
	return p
}
