// Package racelog reads the Go race detector's report file (GORACE=log_path)
// and turns each report into a stable identity: the pair of innermost
// functions of the code under test on the two conflicting stacks.
package racelog

import (
	"os"
	"sort"
	"strconv"
	"strings"
)

// Report is one parsed race report.
type Report struct {
	A, B    string // innermost deps.dev (or harness) function per stack, sorted
	Harness bool   // a harness frame is innermost on one of the stacks
	Text    string
}

// Pair returns "A|B".
func (r Report) Pair() string { return r.A + "|" + r.B }

// Reader tails one process's race log.
type Reader struct {
	path string
	off  int64
}

// FromEnv builds a Reader for this process from GORACE's log_path, or nil.
func FromEnv() *Reader {
	for _, f := range strings.Fields(os.Getenv("GORACE")) {
		if p, ok := strings.CutPrefix(f, "log_path="); ok {
			return &Reader{path: p + "." + strconv.Itoa(os.Getpid())}
		}
	}
	return nil
}

// Next returns the reports appended since the last call.
func (r *Reader) Next() []Report {
	if r == nil {
		return nil
	}
	f, err := os.Open(r.path)
	if err != nil {
		return nil
	}
	defer f.Close()
	st, err := f.Stat()
	if err != nil || st.Size() <= r.off {
		return nil
	}
	buf := make([]byte, st.Size()-r.off)
	n, _ := f.ReadAt(buf, r.off)
	r.off += int64(n)
	return Parse(string(buf[:n]))
}

func clean(fn string) string {
	fn = strings.TrimSuffix(fn, "()")
	// drop generic instantiation brackets: filterSlice[go.shape...] -> filterSlice
	if i := strings.Index(fn, "["); i >= 0 {
		if j := strings.LastIndex(fn, "]"); j > i {
			fn = fn[:i] + fn[j+1:]
		}
	}
	fn = strings.TrimPrefix(fn, "deps.dev/util/")
	// drop closure suffixes: resolve.sortNPMVersions.func1 -> resolve.sortNPMVersions
	for {
		i := strings.LastIndex(fn, ".")
		if i < 0 {
			break
		}
		tail := fn[i+1:]
		if strings.HasPrefix(tail, "func") || strings.HasPrefix(tail, "gowrap") || isDigits(tail) {
			fn = fn[:i]
			continue
		}
		break
	}
	return fn
}

func isDigits(s string) bool {
	if s == "" {
		return false
	}
	for _, c := range s {
		if c < '0' || c > '9' {
			return false
		}
	}
	return true
}

// innermost returns the identity of one access stack.
func innermost(frames []string) (string, bool) {
	for _, f := range frames {
		if strings.HasPrefix(f, "deps.dev/") {
			return clean(f), false
		}
		if strings.HasPrefix(f, "verif/sim/") {
			return "harness:" + clean(f), true
		}
	}
	return "unknown", true
}

// Parse splits race log text into reports.
func Parse(text string) []Report {
	var out []Report
	for _, chunk := range strings.Split(text, "==================") {
		if !strings.Contains(chunk, "WARNING: DATA RACE") {
			continue
		}
		var stacks [][]string
		var cur []string
		in := false
		for _, line := range strings.Split(chunk, "\n") {
			tl := strings.TrimSpace(line)
			switch {
			case strings.HasPrefix(tl, "Read at"), strings.HasPrefix(tl, "Write at"),
				strings.HasPrefix(tl, "Previous read at"), strings.HasPrefix(tl, "Previous write at"),
				strings.HasPrefix(tl, "Atomic"), strings.HasPrefix(tl, "Previous atomic"):
				in = true
				cur = nil
			case tl == "":
				if in {
					stacks = append(stacks, cur)
					in = false
				}
			case in && strings.HasPrefix(line, "  ") && !strings.HasPrefix(line, "      "):
				cur = append(cur, tl)
			}
		}
		if in {
			stacks = append(stacks, cur)
		}
		if len(stacks) < 2 {
			out = append(out, Report{A: "unparsed", B: "unparsed", Harness: true, Text: chunk})
			continue
		}
		a, ha := innermost(stacks[0])
		b, hb := innermost(stacks[1])
		ab := []string{a, b}
		sort.Strings(ab)
		t := strings.TrimSpace(chunk)
		if len(t) > 6000 {
			t = t[:6000] + "\n…"
		}
		// A report counts against the harness only when neither stack has
		// the code under test innermost: if one side is inside deps.dev code,
		// that code touched memory another logically concurrent task uses
		// (for instance a method that writes to its receiver while a reader
		// copies the value).
		out = append(out, Report{A: ab[0], B: ab[1], Harness: ha && hb, Text: t})
	}
	return out
}
