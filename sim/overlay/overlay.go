// Package overlay generates the build overlay that instruments the code under
// test without touching /repo: a virtual package deps.dev/util/semver/verifhook (every module under util/ already depends on util/semver),
// a yield call before every Lock/RLock statement and every sync.Map/atomic/Once operation in util/{semver,maven,pypi,resolve}/**, and a size
// knob around the PyPI resolver's lru.New capacity arguments. Edits are textual
// and stay on the original line, so line numbers in race reports are those of
// /repo.
package overlay

import (
	"encoding/json"
	"fmt"
	"go/ast"
	"go/parser"
	"go/token"
	"os"
	"path/filepath"
	"sort"
	"strings"
)

const hookSrc = `// Package verifhook exists only in the verification build overlay.
package verifhook

import (
	"context"
	"reflect"
	"sync"
	"sync/atomic"
	"time"
	"unsafe"
)

// Yield is called immediately before every Lock/RLock in util/resolve.
var Yield func(point string)

// LRUSize may replace the capacity of the PyPI resolver's caches.
var LRUSize func(def int) int

// Held is told when the calling task acquires (+1) or is about to release
// (-1) a lock, so that the simulator never parks a task that holds one.
var Held func(delta int)

func Y(point string) {
	if Yield != nil {
		Yield(point)
	}
}

// Block / Unblock bracket an operation that may block until another task
// acts (channel receive or send, select without default, Wait).
var (
	Block   func(point string)
	Unblock func()
)

func B(point string) {
	if Block != nil {
		Block(point)
	}
}

func A() {
	if Unblock != nil {
		Unblock()
	}
}

func L() {
	if Held != nil {
		Held(1)
	}
}

func U() {
	if Held != nil {
		Held(-1)
	}
}

// Reach probes (generator audit only, tools/coverage.sh): C counts how often
// a block of the code under test was entered. Never called in a check build.
var (
	cmu    sync.Mutex
	counts map[string]int
)

func C(point string) {
	cmu.Lock()
	if counts == nil {
		counts = map[string]int{}
	}
	counts[point]++
	cmu.Unlock()
}

func Counts() map[string]int {
	cmu.Lock()
	defer cmu.Unlock()
	out := map[string]int{}
	for k, v := range counts {
		out[k] = v
	}
	return out
}

// Spawn / Enter / Exit turn a goroutine started by the code under test into
// a task of the simulator (see the rewriting of go statements).
var (
	Spawn func() int
	Enter func(h int)
	Exit  func(h int, panicked any)
)

func GoSpawn() int {
	if Spawn != nil {
		return Spawn()
	}
	return -1
}

func GoEnter(h int) {
	if Enter != nil {
		Enter(h)
	}
}

// GoExit is deferred first in the goroutine, so it runs last.
func GoExit(h int) {
	r := recover()
	if Exit != nil {
		Exit(h, r)
		return
	}
	if r != nil {
		panic(r)
	}
}

func Size(n int) int {
	if LRUSize != nil {
		return LRUSize(n)
	}
	return n
}

// CondW / CondS are the simulator's own sync.Cond (see kernel.Sched.CondWait):
// CondW reports false when no simulated phase is active.
var (
	CondW func(key uintptr, point string) bool
	CondS func(key uintptr, broadcast bool)
)

// target returns what x.Wait() / x.Signal() is called on, given &x.
func target(p any) any {
	v := reflect.ValueOf(p).Elem()
	switch v.Kind() {
	case reflect.Ptr:
		return v.Interface()
	case reflect.Interface:
		if !v.IsNil() {
			return v.Elem().Interface()
		}
	}
	return p
}

// WaitOn replaces the statement x.Wait(); p is &x. A *sync.Cond waits inside
// the simulator; anything else (a WaitGroup, ...) is a blocking operation of
// the code under test, bracketed as usual.
func WaitOn(p any, point string) {
	obj := target(p)
	if c, ok := obj.(*sync.Cond); ok && CondW != nil {
		U()
		c.L.Unlock()
		if CondW(uintptr(unsafe.Pointer(c)), point) {
			Y(point)
			c.L.Lock()
			L()
			return
		}
		// not in a simulated phase: the real thing
		c.L.Lock()
		L()
	}
	B(point)
	obj.(interface{ Wait() }).Wait()
	A()
}

// SignalOn replaces x.Signal() / x.Broadcast(); p is &x.
func SignalOn(p any, broadcast bool) {
	obj := target(p)
	if c, ok := obj.(*sync.Cond); ok {
		if CondS != nil {
			CondS(uintptr(unsafe.Pointer(c)), broadcast)
		}
		if broadcast {
			c.Broadcast()
		} else {
			c.Signal()
		}
		return
	}
	if broadcast {
		obj.(interface{ Broadcast() }).Broadcast()
	} else {
		obj.(interface{ Signal() }).Signal()
	}
}

// ---- virtual time -------------------------------------------------------
//
// The overlay replaces, in the code under test, time.Now/Since/Until/Sleep/
// After/AfterFunc/NewTimer/NewTicker/Tick, the types time.Timer/time.Ticker
// and context.WithTimeout/WithDeadline/WithCancel/WithCancelCause/WithValue
// (and their Cause variants) by the functions below: every clock read and
// every deadline of the code under test reads the simulator's clock, a timer
// is a task of the simulator that becomes runnable when its virtual time has
// come, and a minute-long timeout costs nothing.

var (
	// NowUs is the virtual time in microseconds since the start of the run.
	NowUs func() int64
	// SleepUs parks the calling task for us microseconds of virtual time; it
	// reports false outside a simulated phase.
	SleepUs func(us int64, point string) bool
	// SpawnAt registers a timer task that becomes runnable after us
	// microseconds of virtual time (-1 outside a simulated phase).
	SpawnAt func(us int64) int
	// Hasten makes a sleeping timer task runnable at once.
	Hasten func(h int)
	// Alone reports whether only timer tasks are still alive.
	Alone func() bool
)

var epoch = time.Date(2030, time.January, 1, 0, 0, 0, 0, time.UTC)

func toUs(d time.Duration) int64 {
	if d <= 0 {
		return 0
	}
	return int64((d + time.Microsecond - 1) / time.Microsecond)
}

// Now is the simulator's clock.
func Now() time.Time {
	if NowUs != nil {
		return epoch.Add(time.Duration(NowUs()) * time.Microsecond)
	}
	return time.Now()
}

func Since(t time.Time) time.Duration { return Now().Sub(t) }

func Until(t time.Time) time.Duration { return t.Sub(Now()) }

func Sleep(d time.Duration) {
	if SleepUs != nil && SleepUs(toUs(d), "sleep") {
		return
	}
	if NowUs == nil {
		time.Sleep(d)
	}
}

// timerGen is one arming of a timer: 0 armed, 1 stopped, 2 fired.
type timerGen struct {
	state int32
	h     int
}

// Timer stands in for time.Timer.
type Timer struct {
	C    <-chan time.Time
	c    chan time.Time
	f    func()
	mu   sync.Mutex
	gen  *timerGen
	real *time.Timer
}

func (t *Timer) arm(d time.Duration) {
	h := -1
	if SpawnAt != nil {
		h = SpawnAt(toUs(d))
	}
	if h < 0 {
		// not inside a simulated phase: the real thing
		if t.f != nil {
			t.real = time.AfterFunc(d, t.f)
		} else {
			t.real = time.NewTimer(d)
			t.C = t.real.C
		}
		return
	}
	g := &timerGen{h: h}
	t.gen = g
	f, c := t.f, t.c
	go func() {
		GoEnter(h)
		defer GoExit(h)
		if !atomic.CompareAndSwapInt32(&g.state, 0, 2) {
			return // stopped
		}
		if f != nil {
			f()
			return
		}
		select {
		case c <- Now():
		default:
		}
	}()
}

func (t *Timer) disarm() bool {
	if t.real != nil {
		r := t.real.Stop()
		t.real = nil
		return r
	}
	g := t.gen
	if g == nil {
		return false
	}
	t.gen = nil
	was := atomic.CompareAndSwapInt32(&g.state, 0, 1)
	if was && Hasten != nil {
		Hasten(g.h)
	}
	if t.c != nil {
		// Go 1.23 semantics: no stale value is received after Stop/Reset
		select {
		case <-t.c:
		default:
		}
	}
	return was
}

func (t *Timer) Stop() bool {
	t.mu.Lock()
	defer t.mu.Unlock()
	return t.disarm()
}

func (t *Timer) Reset(d time.Duration) bool {
	t.mu.Lock()
	defer t.mu.Unlock()
	was := t.disarm()
	if t.c != nil {
		t.C = t.c
	}
	t.arm(d)
	return was
}

func NewTimer(d time.Duration) *Timer {
	t := &Timer{c: make(chan time.Time, 1)}
	t.C = t.c
	t.mu.Lock()
	t.arm(d)
	t.mu.Unlock()
	return t
}

func AfterFunc(d time.Duration, f func()) *Timer {
	t := &Timer{f: f}
	t.mu.Lock()
	t.arm(d)
	t.mu.Unlock()
	return t
}

func After(d time.Duration) <-chan time.Time { return NewTimer(d).C }

// Ticker stands in for time.Ticker.
type Ticker struct {
	C    <-chan time.Time
	c    chan time.Time
	mu   sync.Mutex
	gen  *timerGen
	real *time.Ticker
}

func (t *Ticker) arm(d time.Duration) {
	if d <= 0 {
		panic("non-positive interval for NewTicker")
	}
	h := -1
	if SpawnAt != nil {
		h = SpawnAt(toUs(d))
	}
	if h < 0 {
		t.real = time.NewTicker(d)
		t.C = t.real.C
		return
	}
	g := &timerGen{h: h}
	t.gen = g
	c := t.c
	go func() {
		GoEnter(h)
		defer GoExit(h)
		for atomic.LoadInt32(&g.state) == 0 {
			select {
			case c <- Now():
			default:
			}
			if Alone != nil && Alone() {
				return // nobody left to tick for
			}
			if SleepUs == nil || !SleepUs(toUs(d), "tick") {
				return
			}
		}
	}()
}

func (t *Ticker) disarm() {
	if t.real != nil {
		t.real.Stop()
		t.real = nil
		return
	}
	if g := t.gen; g != nil {
		t.gen = nil
		if atomic.CompareAndSwapInt32(&g.state, 0, 1) && Hasten != nil {
			Hasten(g.h)
		}
	}
}

func (t *Ticker) Stop() {
	t.mu.Lock()
	defer t.mu.Unlock()
	t.disarm()
}

func (t *Ticker) Reset(d time.Duration) {
	t.mu.Lock()
	defer t.mu.Unlock()
	t.disarm()
	select {
	case <-t.c:
	default:
	}
	t.C = t.c
	t.arm(d)
}

func NewTicker(d time.Duration) *Ticker {
	t := &Ticker{c: make(chan time.Time, 1)}
	t.C = t.c
	t.mu.Lock()
	t.arm(d)
	t.mu.Unlock()
	return t
}

func Tick(d time.Duration) <-chan time.Time {
	if d <= 0 {
		return nil
	}
	return NewTicker(d).C
}

// vctx wraps every context the code under test derives. A context whose
// deadline is virtual is a cancel context cancelled by a virtual timer with
// the cause context.DeadlineExceeded; Err of it and of everything derived
// from it then says DeadlineExceeded, as for a real deadline.
type vctx struct {
	context.Context
	dl    time.Time
	hasDL bool
}

func (c *vctx) Err() error {
	e := c.Context.Err()
	if e != nil && context.Cause(c.Context) == context.DeadlineExceeded {
		return context.DeadlineExceeded
	}
	return e
}

func (c *vctx) Deadline() (time.Time, bool) {
	if c.hasDL {
		return c.dl, true
	}
	return c.Context.Deadline()
}

func (c *vctx) String() string { return "verif.virtualContext" }

// DeadlineFired reports whether ctx has ended because a virtual deadline of
// the code under test passed.
func DeadlineFired(ctx context.Context) bool {
	return ctx != nil && ctx.Err() != nil && context.Cause(ctx) == context.DeadlineExceeded
}

func CtxWithCancel(parent context.Context) (context.Context, context.CancelFunc) {
	inner, cancel := context.WithCancel(parent)
	return &vctx{Context: inner}, cancel
}

func CtxWithCancelCause(parent context.Context) (context.Context, context.CancelCauseFunc) {
	inner, cancel := context.WithCancelCause(parent)
	return &vctx{Context: inner}, cancel
}

func CtxWithValue(parent context.Context, key, val any) context.Context {
	return &vctx{Context: context.WithValue(parent, key, val)}
}

func CtxWithoutCancel(parent context.Context) context.Context {
	return &vctx{Context: context.WithoutCancel(parent)}
}

func CtxWithTimeout(parent context.Context, d time.Duration) (context.Context, context.CancelFunc) {
	return CtxWithTimeoutCause(parent, d, nil)
}

func CtxWithDeadline(parent context.Context, at time.Time) (context.Context, context.CancelFunc) {
	return CtxWithTimeoutCause(parent, Until(at), nil)
}

func CtxWithDeadlineCause(parent context.Context, at time.Time, cause error) (context.Context, context.CancelFunc) {
	return CtxWithTimeoutCause(parent, Until(at), cause)
}

// CtxWithTimeoutCause: a cause other than nil is not distinguished from
// DeadlineExceeded by Cause (the wrapper needs the cause to recognise a
// virtual deadline); Err is exact.
func CtxWithTimeoutCause(parent context.Context, d time.Duration, cause error) (context.Context, context.CancelFunc) {
	if SpawnAt == nil || NowUs == nil {
		return context.WithTimeoutCause(parent, d, cause)
	}
	at := Now().Add(d)
	if cur, ok := parent.Deadline(); ok && cur.Before(at) {
		// the parent ends first
		return CtxWithCancel(parent)
	}
	inner, cancel := context.WithCancelCause(parent)
	c := &vctx{Context: inner, dl: at, hasDL: true}
	if d <= 0 {
		cancel(context.DeadlineExceeded)
		return c, func() { cancel(context.Canceled) }
	}
	tm := AfterFunc(d, func() { cancel(context.DeadlineExceeded) })
	return c, func() {
		tm.Stop()
		cancel(context.Canceled)
	}
}

// SelBegin / SelNext make a select statement with several cases
// deterministic: before blocking, the cases are polled one by one, in an
// order the simulator chooses, while the calling task still has the baton.
var (
	SelB func(point string, k int)
	SelN func(i, k int) int
)

func SelBegin(point string, k int) {
	if SelB != nil {
		SelB(point, k)
	}
}

func SelNext(i, k int) int {
	if SelN != nil {
		return SelN(i, k)
	}
	return i
}
`

// bridgeSrc is a second overlay-only package, inside the resolve module, that
// re-exports the repository's internal text helpers for attribute sets (the
// writer/parser pair named by C19) so that the simulator can call them.
const bridgeSrc = `// Package verifbridge exists only in the verification build overlay.
package verifbridge

import (
	"deps.dev/util/resolve/dep"
	"deps.dev/util/resolve/internal/deptest"
	"deps.dev/util/resolve/internal/versiontest"
	"deps.dev/util/resolve/version"
)

func VersionAttrString(a version.AttrSet) string { return versiontest.String(a) }

func VersionAttrParse(s string) (version.AttrSet, error) { return versiontest.ParseString(s) }

func VersionAttrParseSingle(s string) (version.AttrSet, error) { return versiontest.ParseSingle(s) }

func DepTypeParse(s string) (dep.Type, error) { return deptest.ParseString(s) }
`

// Report says what was instrumented.
type Report struct {
	LockSites   []string `json:"lock_sites"`
	SyncSites   []string `json:"sync_sites"`
	BlockSites  []string `json:"block_sites"`
	GoSites     []string `json:"go_sites"`
	SelectSites int      `json:"select_sites"`
	TimeSites   int      `json:"time_sites"`
	OnceSites   int      `json:"once_sites"`
	SizeSites   []string `json:"lru_size_sites"`
	ProbeSites  []string `json:"probe_sites,omitempty"`
	Files       int      `json:"files_rewritten"`
}

type edit struct {
	off  int
	text string
}

// rewriteSelects is a pre-pass over one source file. Go chooses at random
// among the ready cases of a select; the simulator must own that choice. A
// select without default and with at least two cases

//	select { case C1: B1; case C2: B2 }

// becomes

//	{ __sd := false; verifhook.SelBegin(point, 2)
//	  for __si := 0; __si < 2 && !__sd; __si++ {
//	    switch verifhook.SelNext(__si, 2) {
//	    case 0: select { case C1: __sd = true; B1; default: }
//	    case 1: select { case C2: __sd = true; B2; default: } } }
//	  if !__sd { select { case C1: B1; case C2: B2 } } }

// so that cases already ready are taken in an order drawn from the tape while
// the task holds the baton, and only a select on which the task really has to
// wait is executed as a blocking operation (bracketed by the main pass). A
// select that is labelled, or whose case bodies contain a continue that
// refers to a loop outside the select, is left alone. A //line directive after
// the rewritten statement keeps the line numbers of the rest of the file.
func rewriteSelects(filename string, src []byte) ([]byte, int, error) {
	fset := token.NewFileSet()
	af, err := parser.ParseFile(fset, filename, src, parser.SkipObjectResolution)
	if err != nil {
		return nil, 0, err
	}
	off := func(p token.Pos) int { return fset.Position(p).Offset }
	labelled := map[*ast.SelectStmt]bool{}
	var sels []*ast.SelectStmt
	ast.Inspect(af, func(n ast.Node) bool {
		switch x := n.(type) {
		case *ast.LabeledStmt:
			if ss, ok := x.Stmt.(*ast.SelectStmt); ok {
				labelled[ss] = true
			}
		case *ast.SelectStmt:
			sels = append(sels, x)
		}
		return true
	})
	// an unlabelled continue that belongs to a loop outside the clause body
	escapes := func(cc *ast.CommClause) bool {
		found := false
		var walk func(n ast.Node, inLoop bool)
		walk = func(n ast.Node, inLoop bool) {
			ast.Inspect(n, func(m ast.Node) bool {
				if m == nil || found {
					return false
				}
				switch y := m.(type) {
				case *ast.FuncLit:
					return false
				case *ast.ForStmt:
					if m != n {
						walk(y.Body, true)
						return false
					}
				case *ast.RangeStmt:
					if m != n {
						walk(y.Body, true)
						return false
					}
				case *ast.BranchStmt:
					if y.Tok == token.CONTINUE && y.Label == nil && !inLoop {
						found = true
					}
				}
				return true
			})
		}
		for _, st := range cc.Body {
			walk(st, false)
		}
		return found
	}
	eligible := map[*ast.SelectStmt]bool{}
	for _, ss := range sels {
		if labelled[ss] || len(ss.Body.List) < 2 {
			continue
		}
		ok := true
		for _, c := range ss.Body.List {
			cc := c.(*ast.CommClause)
			if cc.Comm == nil || escapes(cc) {
				ok = false
			}
		}
		eligible[ss] = ok
	}
	n := 0
	var render func(from, to int) string
	var rewritten func(ss *ast.SelectStmt) string
	render = func(from, to int) string {
		// outermost eligible selects inside [from,to)
		var sb strings.Builder
		last := from
		for _, ss := range sels {
			a, b := off(ss.Pos()), off(ss.End())
			if !eligible[ss] || a < last || b > to {
				continue
			}
			sb.Write(src[last:a])
			sb.WriteString(rewritten(ss))
			last = b
		}
		sb.Write(src[last:to])
		return sb.String()
	}
	rewritten = func(ss *ast.SelectStmt) string {
		n++
		id := n
		k := len(ss.Body.List)
		pos := fset.Position(ss.Pos())
		rel := filename
		if i := strings.Index(filename, "/util/"); i >= 0 {
			rel = filename[i+len("/util/"):]
		}
		point := fmt.Sprintf("select:%s:%d", rel, pos.Line)
		var sb strings.Builder
		fmt.Fprintf(&sb, "{ __sd%d := false; verifhook.SelBegin(%q, %d); for __si%d := 0; __si%d < %d && !__sd%d; __si%d++ { switch verifhook.SelNext(__si%d, %d) {", id, point, k, id, id, k, id, id, id, k)
		var full strings.Builder
		full.WriteString("select {")
		for i, c := range ss.Body.List {
			cc := c.(*ast.CommClause)
			comm := string(src[off(cc.Comm.Pos()):off(cc.Comm.End())])
			bodyFrom := off(cc.Colon) + 1
			bodyTo := off(ss.Body.Rbrace)
			if i+1 < k {
				bodyTo = off(ss.Body.List[i+1].Pos())
			}
			body := render(bodyFrom, bodyTo)
			fmt.Fprintf(&sb, "\ncase %d: select { case %s: __sd%d = true; %s\ndefault: }", i, comm, id, body)
			fmt.Fprintf(&full, "\ncase %s: %s", comm, body)
		}
		full.WriteString("\n}")
		// A select all of whose cases end in a return or a panic is a
		// terminating statement (a function may end with it); the rewritten
		// block must be one as well.
		term := true
		for _, c := range ss.Body.List {
			cc := c.(*ast.CommClause)
			if len(cc.Body) == 0 {
				term = false
				break
			}
			switch last := cc.Body[len(cc.Body)-1].(type) {
			case *ast.ReturnStmt:
			case *ast.ExprStmt:
				call, ok := last.X.(*ast.CallExpr)
				id, ok2 := ast.Expr(nil), false
				if ok {
					id, ok2 = call.Fun, true
				}
				if fn, isIdent := id.(*ast.Ident); !ok || !ok2 || !isIdent || fn.Name != "panic" {
					term = false
				}
			default:
				term = false
			}
		}
		tail := ""
		if term {
			tail = "; panic(\"verif: unreachable\")"
		}
		fmt.Fprintf(&sb, "\n} }; if !__sd%d { %s } }%s\n//line %s:%d\n", id, full.String(), tail, filename, fset.Position(ss.End()).Line)
		return sb.String()
	}
	out := render(0, len(src))
	if n == 0 {
		return src, 0, nil
	}
	return []byte(out), n, nil
}

// timeFuncs / ctxFuncs: what the virtual-time pre-pass replaces.
var timeFuncs = map[string]string{
	"Now": "Now", "Since": "Since", "Until": "Until", "Sleep": "Sleep", "After": "After", "AfterFunc": "AfterFunc",
	"NewTimer": "NewTimer", "NewTicker": "NewTicker", "Tick": "Tick", "Timer": "Timer", "Ticker": "Ticker",
}

var ctxFuncs = map[string]string{
	"WithTimeout": "CtxWithTimeout", "WithDeadline": "CtxWithDeadline", "WithCancel": "CtxWithCancel",
	"WithCancelCause": "CtxWithCancelCause", "WithValue": "CtxWithValue", "WithoutCancel": "CtxWithoutCancel",
	"WithTimeoutCause": "CtxWithTimeoutCause", "WithDeadlineCause": "CtxWithDeadlineCause",
}

// rewriteTime is a pre-pass over one source file: clock reads, sleeps, timers
// and context deadlines of the code under test are redirected to the
// simulator's clock (see the hook package). Replacements stay on their line.
func rewriteTime(filename string, src []byte) ([]byte, int, error) {
	fset := token.NewFileSet()
	af, err := parser.ParseFile(fset, filename, src, 0) // with object resolution: a local named time is not the package
	if err != nil {
		return nil, 0, err
	}
	timeName, ctxName := "", ""
	for _, im := range af.Imports {
		path := strings.Trim(im.Path.Value, "\"`")
		name := ""
		if im.Name != nil {
			name = im.Name.Name
		}
		switch path {
		case "time":
			if name == "" {
				name = "time"
			}
			timeName = name
		case "context":
			if name == "" {
				name = "context"
			}
			ctxName = name
		}
	}
	if (timeName == "" || timeName == "_" || timeName == ".") && (ctxName == "" || ctxName == "_" || ctxName == ".") {
		return src, 0, nil
	}
	var edits []edit
	var ends []int
	usedTime, usedCtx := false, false
	ast.Inspect(af, func(n ast.Node) bool {
		sel, ok := n.(*ast.SelectorExpr)
		if !ok {
			return true
		}
		id, ok := sel.X.(*ast.Ident)
		if !ok || id.Obj != nil {
			return true
		}
		var to string
		switch {
		case timeName != "" && id.Name == timeName:
			to = timeFuncs[sel.Sel.Name]
			usedTime = usedTime || to != ""
		case ctxName != "" && id.Name == ctxName:
			to = ctxFuncs[sel.Sel.Name]
			usedCtx = usedCtx || to != ""
		}
		if to == "" {
			return true
		}
		edits = append(edits, edit{fset.Position(id.Pos()).Offset, "verifhook." + to})
		ends = append(ends, fset.Position(sel.Sel.End()).Offset)
		return true
	})
	if len(edits) == 0 {
		return src, 0, nil
	}
	var sb strings.Builder
	last := 0
	for i, e := range edits {
		sb.Write(src[last:e.off])
		sb.WriteString(e.text)
		last = ends[i]
	}
	sb.Write(src[last:])
	// keep the imports used
	if usedTime {
		fmt.Fprintf(&sb, "\nvar _ = %s.Nanosecond\n", timeName)
	}
	if usedCtx {
		fmt.Fprintf(&sb, "\nvar _ = %s.Background\n", ctxName)
	}
	return []byte(sb.String()), len(edits), nil
}

// Generate writes the overlay for repo into dir and returns the path of the
// overlay JSON file.
func Generate(repo, dir string) (string, *Report, error) {
	rep := &Report{}
	root := filepath.Join(repo, "util")
	replace := map[string]string{}
	hook := filepath.Join(dir, "verifhook.go.txt")
	if err := os.WriteFile(hook, []byte(hookSrc), 0o644); err != nil {
		return "", nil, err
	}
	replace[filepath.Join(root, "semver", "verifhook", "hook.go")] = hook
	bridge := filepath.Join(dir, "verifbridge.go.txt")
	if err := os.WriteFile(bridge, []byte(bridgeSrc), 0o644); err != nil {
		return "", nil, err
	}
	replace[filepath.Join(root, "resolve", "verifbridge", "bridge.go")] = bridge

	var files []string
	err := filepath.Walk(root, func(p string, info os.FileInfo, err error) error {
		if err != nil {
			return err
		}
		if info.IsDir() {
			if info.Name() == "testdata" || info.Name() == "verifhook" || info.Name() == "verifbridge" {
				return filepath.SkipDir
			}
			return nil
		}
		if strings.HasSuffix(p, ".go") && !strings.HasSuffix(p, "_test.go") {
			files = append(files, p)
		}
		return nil
	})
	if err != nil {
		return "", nil, err
	}
	sort.Strings(files)
	for i, f := range files {
		src, err := os.ReadFile(f)
		if err != nil {
			return "", nil, err
		}
		var nsel int
		if src, nsel, err = rewriteSelects(f, src); err != nil {
			return "", nil, fmt.Errorf("parse %s: %w", f, err)
		}
		rep.SelectSites += nsel
		var ntime int
		if src, ntime, err = rewriteTime(f, src); err != nil {
			return "", nil, fmt.Errorf("parse %s (after the select pre-pass): %w", f, err)
		}
		rep.TimeSites += ntime
		fset := token.NewFileSet()
		af, err := parser.ParseFile(fset, f, src, parser.SkipObjectResolution)
		if err != nil {
			return "", nil, fmt.Errorf("parse %s (after the select pre-pass): %w", f, err)
		}
		rel, _ := filepath.Rel(root, f)
		var edits []edit
		var dels [][2]int // source ranges replaced by an edit at their start
		goN := 0
		isPypi := af.Name.Name == "pypi"
		isLockCall := func(e ast.Expr, names ...string) bool {
			call, ok := e.(*ast.CallExpr)
			if !ok || len(call.Args) != 0 {
				return false
			}
			sel, ok := call.Fun.(*ast.SelectorExpr)
			if !ok {
				return false
			}
			for _, n := range names {
				if sel.Sel.Name == n {
					return true
				}
			}
			return false
		}
		// hasSyncCall reports whether the statement itself (not nested blocks or
		// function literals) calls a synchronisation primitive other than a
		// mutex: sync.Map / atomic.Value style methods, sync/atomic functions,
		// or a sync.Once.
		hasSyncCall := func(st ast.Stmt) bool {
			found := false
			ast.Inspect(st, func(n ast.Node) bool {
				switch x := n.(type) {
				case *ast.BlockStmt, *ast.FuncLit:
					return false
				case *ast.CallExpr:
					sel, ok := x.Fun.(*ast.SelectorExpr)
					if !ok {
						return true
					}
					switch sel.Sel.Name {
					case "Load", "Store", "LoadOrStore", "LoadAndDelete", "CompareAndSwap", "CompareAndDelete", "Swap":
						found = true
					case "Do":
						if id, ok := sel.X.(*ast.Ident); ok && strings.Contains(strings.ToLower(id.Name), "once") {
							found = true
						}
						if in, ok := sel.X.(*ast.SelectorExpr); ok && strings.Contains(strings.ToLower(in.Sel.Name), "once") {
							found = true
						}
					}
					if id, ok := sel.X.(*ast.Ident); ok && id.Name == "atomic" {
						found = true
					}
					// a polling loop gives the processor away here: so does the task
					if id, ok := sel.X.(*ast.Ident); ok && ((id.Name == "runtime" && sel.Sel.Name == "Gosched") || (id.Name == "time" && sel.Sel.Name == "Sleep")) {
						found = true
					}
				}
				return true
			})
			return found
		}
		var visitStmts func(list []ast.Stmt)
		visitStmts = func(list []ast.Stmt) {
			for _, st := range list {
				pos := fset.Position(st.Pos())
				end := fset.Position(st.End())
				switch x := st.(type) {
				case *ast.ExprStmt:
					if isLockCall(x.X, "Lock", "RLock") {
						point := fmt.Sprintf("lock:%s:%d", rel, pos.Line)
						edits = append(edits, edit{pos.Offset, fmt.Sprintf("verifhook.Y(%q); ", point)}, edit{end.Offset, "; verifhook.L()"})
						rep.LockSites = append(rep.LockSites, point)
						continue
					}
					if isLockCall(x.X, "Unlock", "RUnlock") {
						edits = append(edits, edit{pos.Offset, "verifhook.U(); "})
						continue
					}
				case *ast.DeferStmt:
					if isLockCall(x.Call, "Unlock", "RUnlock") {
						cp := fset.Position(x.Call.Pos())
						edits = append(edits, edit{cp.Offset, "func() { verifhook.U(); "}, edit{end.Offset, " }()"})
						continue
					}
				}
				if gs, ok := st.(*ast.GoStmt); ok {
					// A goroutine of the code under test becomes a task: the
					// parent registers it, the goroutine reports in and waits
					// for the baton, and says when it ends. Function value and
					// arguments are still evaluated at the go statement.
					goN++
					h := fmt.Sprintf("__vh%d", goN)
					point := fmt.Sprintf("go:%s:%d", rel, pos.Line)
					rep.GoSites = append(rep.GoSites, point)
					enter := fmt.Sprintf(" verifhook.GoEnter(%s); defer verifhook.GoExit(%s);", h, h)
					if fl, ok := gs.Call.Fun.(*ast.FuncLit); ok {
						edits = append(edits, edit{pos.Offset, h + " := verifhook.GoSpawn(); "},
							edit{fset.Position(fl.Body.Lbrace).Offset + 1, enter})
						continue
					}
					text := func(n ast.Node) string {
						return string(src[fset.Position(n.Pos()).Offset:fset.Position(n.End()).Offset])
					}
					var lhs, rhs, args []string
					fn := text(gs.Call.Fun)
					builtin := false
					if id, ok := gs.Call.Fun.(*ast.Ident); ok {
						switch id.Name {
						case "close", "panic", "print", "println", "delete", "copy", "clear":
							builtin = true
						}
					}
					if !builtin {
						lhs, rhs = append(lhs, fmt.Sprintf("__vf%d", goN)), append(rhs, fn)
						fn = fmt.Sprintf("__vf%d", goN)
					}
					for ai, a := range gs.Call.Args {
						inline := false
						switch x := a.(type) {
						case *ast.BasicLit:
							inline = true
						case *ast.Ident:
							inline = x.Name == "nil" || x.Name == "true" || x.Name == "false"
						}
						if inline {
							args = append(args, text(a))
							continue
						}
						v := fmt.Sprintf("__va%d_%d", goN, ai)
						lhs, rhs = append(lhs, v), append(rhs, text(a))
						args = append(args, v)
					}
					call := fn + "(" + strings.Join(args, ", ")
					if gs.Call.Ellipsis.IsValid() {
						call += "..."
					}
					call += ")"
					pre := h + " := verifhook.GoSpawn(); "
					if len(lhs) > 0 {
						pre += strings.Join(lhs, ", ") + " := " + strings.Join(rhs, ", ") + "; "
					}
					// replace the whole statement
					dels = append(dels, [2]int{pos.Offset, end.Offset})
					edits = append(edits, edit{pos.Offset, pre + "go func() {" + enter + " " + call + " }()"})
					continue
				}
				// x.Wait(), x.Signal(), x.Broadcast() on an addressable x (an
				// identifier or a chain of field selections): handed to the
				// hook with &x, which waits inside the simulator if x turns
				// out to be a *sync.Cond and brackets the real call otherwise
				if es, ok := st.(*ast.ExprStmt); ok {
					if call, ok := es.X.(*ast.CallExpr); ok && len(call.Args) == 0 {
						if sel, ok := call.Fun.(*ast.SelectorExpr); ok && (sel.Sel.Name == "Wait" || sel.Sel.Name == "Signal" || sel.Sel.Name == "Broadcast") {
							addressable := true
							for x := sel.X; addressable; {
								switch y := x.(type) {
								case *ast.Ident:
									x = nil
								case *ast.SelectorExpr:
									x = y.X
									continue
								default:
									addressable = false
								}
								break
							}
							if addressable {
								recv := string(src[fset.Position(sel.X.Pos()).Offset:fset.Position(sel.X.End()).Offset])
								point := fmt.Sprintf("block:%s:%d", rel, pos.Line)
								var text string
								switch sel.Sel.Name {
								case "Wait":
									text = fmt.Sprintf("verifhook.WaitOn(&%s, %q)", recv, point)
									rep.BlockSites = append(rep.BlockSites, point)
								case "Signal":
									text = fmt.Sprintf("verifhook.SignalOn(&%s, false)", recv)
								default:
									text = fmt.Sprintf("verifhook.SignalOn(&%s, true)", recv)
								}
								dels = append(dels, [2]int{pos.Offset, end.Offset})
								edits = append(edits, edit{pos.Offset, text})
								continue
							}
						}
					}
				}
				// possibly blocking statements: <-ch, x := <-ch, ch <- v,
				// select without default, x.Wait()
				isRecv := func(e ast.Expr) bool {
					u, ok := e.(*ast.UnaryExpr)
					return ok && u.Op == token.ARROW
				}
				blocking := false
				switch x := st.(type) {
				case *ast.ExprStmt:
					blocking = isRecv(x.X) || isLockCall(x.X, "Wait")
				case *ast.AssignStmt:
					blocking = len(x.Rhs) == 1 && isRecv(x.Rhs[0])
				case *ast.SendStmt:
					blocking = true
				case *ast.SelectStmt:
					hasDefault := false
					for _, c := range x.Body.List {
						if cc, ok := c.(*ast.CommClause); ok && cc.Comm == nil {
							hasDefault = true
						}
					}
					if hasDefault && len(x.Body.List) > 1 {
						// a poll: a yield point, unless it is one of the polls the
						// select pre-pass generated (its first clause sets __sdN)
						generated := false
						if cc, ok := x.Body.List[0].(*ast.CommClause); ok && len(cc.Body) > 0 {
							if as, ok := cc.Body[0].(*ast.AssignStmt); ok && len(as.Lhs) == 1 {
								if id, ok := as.Lhs[0].(*ast.Ident); ok && strings.HasPrefix(id.Name, "__sd") {
									generated = true
								}
							}
						}
						if !generated {
							point := fmt.Sprintf("poll:%s:%d", rel, pos.Line)
							edits = append(edits, edit{pos.Offset, fmt.Sprintf("verifhook.Y(%q); ", point)})
							rep.SyncSites = append(rep.SyncSites, point)
						}
						continue
					}
					if !hasDefault && len(x.Body.List) > 0 {
						point := fmt.Sprintf("block:%s:%d", rel, pos.Line)
						edits = append(edits, edit{pos.Offset, fmt.Sprintf("verifhook.B(%q); ", point)})
						for _, c := range x.Body.List {
							cc := c.(*ast.CommClause)
							edits = append(edits, edit{fset.Position(cc.Colon).Offset + 1, " verifhook.A();"})
						}
						rep.BlockSites = append(rep.BlockSites, point)
						continue
					}
				}
				if blocking {
					point := fmt.Sprintf("block:%s:%d", rel, pos.Line)
					edits = append(edits, edit{pos.Offset, fmt.Sprintf("verifhook.B(%q); ", point)}, edit{end.Offset, "; verifhook.A()"})
					rep.BlockSites = append(rep.BlockSites, point)
					continue
				}
				switch st.(type) {
				case *ast.ExprStmt, *ast.AssignStmt, *ast.IfStmt, *ast.ReturnStmt, *ast.DeclStmt, *ast.SwitchStmt, *ast.GoStmt:
					if hasSyncCall(st) {
						point := fmt.Sprintf("sync:%s:%d", rel, pos.Line)
						edits = append(edits, edit{pos.Offset, fmt.Sprintf("verifhook.Y(%q); ", point)})
						rep.SyncSites = append(rep.SyncSites, point)
					}
				}
			}
		}
		probes := os.Getenv("VERIF_PROBES") != ""
		clauseBlocks := map[*ast.BlockStmt]bool{}
		probe := func(off int, line int) {
			point := fmt.Sprintf("%s:%d", rel, line)
			edits = append(edits, edit{off, fmt.Sprintf(" verifhook.C(%q);", point)})
			rep.ProbeSites = append(rep.ProbeSites, point)
		}
		ast.Inspect(af, func(n ast.Node) bool {
			switch x := n.(type) {
			case *ast.SwitchStmt:
				clauseBlocks[x.Body] = true
			case *ast.TypeSwitchStmt:
				clauseBlocks[x.Body] = true
			case *ast.SelectStmt:
				clauseBlocks[x.Body] = true
			}
			switch x := n.(type) {
			case *ast.BlockStmt:
				visitStmts(x.List)
				if probes && !clauseBlocks[x] && x.Lbrace.IsValid() {
					probe(fset.Position(x.Lbrace).Offset+1, fset.Position(x.Lbrace).Line)
				}
			case *ast.CaseClause:
				visitStmts(x.Body)
				if probes {
					probe(fset.Position(x.Colon).Offset+1, fset.Position(x.Colon).Line)
				}
			case *ast.CommClause:
				visitStmts(x.Body)
				if probes {
					probe(fset.Position(x.Colon).Offset+1, fset.Position(x.Colon).Line)
				}
			case *ast.CallExpr:
				// once.Do(f): whoever runs f holds the Once's internal mutex, and a
				// second caller blocks on it for real. f therefore runs as if
				// under a lock of the code under test: the task is not parked
				// inside it (its client calls do not yield).
				if sel, ok := x.Fun.(*ast.SelectorExpr); ok && sel.Sel.Name == "Do" && len(x.Args) == 1 {
					onceish := false
					switch r := sel.X.(type) {
					case *ast.Ident:
						onceish = strings.Contains(strings.ToLower(r.Name), "once")
					case *ast.SelectorExpr:
						onceish = strings.Contains(strings.ToLower(r.Sel.Name), "once")
					}
					if onceish {
						if fl, ok := x.Args[0].(*ast.FuncLit); ok {
							edits = append(edits, edit{fset.Position(fl.Body.Lbrace).Offset + 1, " verifhook.L(); defer verifhook.U();"})
						} else {
							edits = append(edits, edit{fset.Position(x.Args[0].Pos()).Offset, "func() { verifhook.L(); defer verifhook.U(); ("},
								edit{fset.Position(x.Args[0].End()).Offset, ")() }"})
						}
						rep.OnceSites++
					}
				}
				if !isPypi || len(x.Args) != 1 {
					return true
				}
				fun := x.Fun
				switch ix := fun.(type) {
				case *ast.IndexExpr:
					fun = ix.X
				case *ast.IndexListExpr:
					fun = ix.X
				}
				sel, ok := fun.(*ast.SelectorExpr)
				if !ok || sel.Sel.Name != "New" {
					return true
				}
				if id, ok := sel.X.(*ast.Ident); !ok || id.Name != "lru" {
					return true
				}
				a := x.Args[0]
				edits = append(edits, edit{fset.Position(a.Pos()).Offset, "verifhook.Size("}, edit{fset.Position(a.End()).Offset, ")"})
				rep.SizeSites = append(rep.SizeSites, fmt.Sprintf("%s:%d", rel, fset.Position(a.Pos()).Line))
			}
			return true
		})
		if len(edits) == 0 && ntime == 0 {
			continue
		}
		// import on the package clause's line
		edits = append(edits, edit{fset.Position(af.Name.End()).Offset, `; import verifhook "deps.dev/util/semver/verifhook"`})
		sort.SliceStable(edits, func(i, j int) bool { return edits[i].off < edits[j].off })
		var sb strings.Builder
		last := 0
		skipTo := func(off int) int {
			for _, d := range dels {
				if off >= d[0] && off < d[1] {
					return d[1]
				}
			}
			return off
		}
		for _, e := range edits {
			if e.off < last {
				continue // inside a replaced range
			}
			sb.Write(src[last:e.off])
			sb.WriteString(e.text)
			last = skipTo(e.off)
		}
		sb.Write(src[last:])
		outp := filepath.Join(dir, fmt.Sprintf("f%03d_%s.txt", i, strings.ReplaceAll(rel, "/", "_")))
		if err := os.WriteFile(outp, []byte(sb.String()), 0o644); err != nil {
			return "", nil, err
		}
		replace[f] = outp
		rep.Files++
	}
	oj := filepath.Join(dir, "overlay.json")
	b, _ := json.MarshalIndent(map[string]any{"Replace": replace}, "", " ")
	if err := os.WriteFile(oj, b, 0o644); err != nil {
		return "", nil, err
	}
	return oj, rep, nil
}
