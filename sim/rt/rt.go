// Package rt holds the run/result types shared by the worker and the
// orchestrator; it depends on nothing from the code under test.
package rt

import "verif/sim/kernel"

// Violation is one oracle failure.
type Violation struct {
	Kind   string `json:"kind"`
	Key    string `json:"key"` // stable identity for known-finding matching
	Step   int    `json:"step"`
	Detail string `json:"detail"`
}

// Result describes one simulated run.
type Result struct {
	Prop       string `json:"prop"`
	Index      uint64 `json:"index"`
	Seed       uint64 `json:"seed"`
	Status     string `json:"status"` // ok | budget | stalled | foreign
	Config     string `json:"config"`
	NonTrivial bool   `json:"nontrivial"`
	Distinct   string `json:"distinct"`
	// Digest hashes everything the run observed (results, client answers);
	// the same tape must give the same digest in any process, whatever ran
	// in that process before.
	Digest     string             `json:"digest"`
	SchedHash  string             `json:"sched_hash"`
	Yields     int                `json:"yields"`
	Switches   int                `json:"switches"`
	SimTimeUs  int64              `json:"sim_time_us"`
	Faults     map[string]int     `json:"faults,omitempty"`
	Probes     map[string]int     `json:"probes,omitempty"`
	Violations []Violation        `json:"violations,omitempty"`
	RaceSteps  []kernel.RaceEvent `json:"race_steps,omitempty"`
	Tape       []uint32           `json:"tape,omitempty"`
	TapeLen    int                `json:"tape_len"`
	Scenario   any                `json:"scenario,omitempty"`
}

// Opts are the tier knobs; they are part of a replay file.
type Opts struct {
	Tier       string `json:"tier"`
	MaxTasks   int    `json:"max_tasks"`
	MaxPkgs    int    `json:"max_pkgs"`
	MaxOps     int    `json:"max_ops"`
	Repo       string `json:"repo"`
	WantDetail bool   `json:"-"` // include tape + decoded scenario even without a violation
}

// QuickOpts / ThoroughOpts are the two tiers.
func QuickOpts() Opts { return Opts{Tier: "quick", MaxTasks: 6, MaxPkgs: 8, MaxOps: 8, Repo: "/repo"} }
func ThoroughOpts() Opts {
	return Opts{Tier: "thorough", MaxTasks: 16, MaxPkgs: 12, MaxOps: 8, Repo: "/repo"}
}
