//go:build !race

package kernel

// RaceBuild reports whether the binary was built with -race.
const RaceBuild = false

func raceErrors() int { return 0 }
func raceDisable()    {}
func raceEnable()     {}

// RaceErrors exposes the detector's report counter (always 0 without -race).
func RaceErrors() int { return 0 }
