//go:build race

package kernel

import "runtime"

// RaceBuild reports whether the binary was built with -race.
const RaceBuild = true

//go:norace
func raceErrors() int { return runtime.RaceErrors() }

//go:norace
func raceDisable() { runtime.RaceDisable() }

//go:norace
func raceEnable() { runtime.RaceEnable() }

// RaceErrors exposes the detector's report counter.
//
//go:norace
func RaceErrors() int { return runtime.RaceErrors() }
