// Package kernel is the deterministic simulation kernel: the choice tape, the
// cooperative scheduler with hidden hand-off edges, the virtual clock and the
// race-report poller.
//
// Everything in this package that is touched by more than one simulated task
// lives in //go:norace, closure-free functions and in preallocated arrays (no
// maps, no append): the tasks are, on purpose, *not* ordered by happens-before
// edges (see sched.go), so any instrumented access to shared harness state
// would itself be reported by the race detector.
package kernel

// MaxTape bounds the number of choices in one run.
const MaxTape = 1 << 18

// Tape is the single source of every choice in a run. In generate mode the
// values come from a splitmix64 stream and are recorded; in replay mode they
// come from a recorded tape (0 past its end).
type Tape struct {
	buf    []uint32
	n      int
	in     []uint32
	replay bool
	state  uint64
	Over   bool // the tape overflowed MaxTape (run is discarded)
}

// tapeBuf is reused between runs (one run at a time per process).
var tapeBuf = make([]uint32, MaxTape)

// NewTape returns a generating tape seeded with seed. It invalidates the
// previous tape of this process.
func NewTape(seed uint64) *Tape {
	return &Tape{buf: tapeBuf, state: seed}
}

// NewReplayTape returns a tape replaying the given entries.
func NewReplayTape(in []uint32) *Tape {
	return &Tape{buf: tapeBuf, in: in, replay: true}
}

//go:norace
func (t *Tape) next() uint64 {
	t.state += 0x9e3779b97f4a7c15
	z := t.state
	z = (z ^ (z >> 30)) * 0xbf58476d1ce4e5b9
	z = (z ^ (z >> 27)) * 0x94d049bb133111eb
	return z ^ (z >> 31)
}

// Choose returns a value in [0,n). 0 is by convention the simplest choice.
// No entry is consumed when n <= 1.
//
//go:norace
func (t *Tape) Choose(n int) int {
	if n <= 1 {
		return 0
	}
	var v uint32
	if t.replay {
		if t.n < len(t.in) {
			v = t.in[t.n] % uint32(n)
		}
	} else {
		v = uint32(t.next() % uint64(n))
	}
	if t.n < MaxTape {
		t.buf[t.n] = v
		t.n++
	} else {
		t.Over = true
	}
	return int(v)
}

// Bool is true with probability num/den in generate mode; the tape value 0
// always means false.
//
//go:norace
func (t *Tape) Bool(num, den int) bool {
	if num <= 0 {
		return false
	}
	return t.Choose(den) >= den-num
}

// Range returns a value in [lo,hi]; lo is the simplest.
//
//go:norace
func (t *Tape) Range(lo, hi int) int {
	if hi <= lo {
		return lo
	}
	return lo + t.Choose(hi-lo+1)
}

// Recorded returns a copy of the choices made so far (reduced values).
//
//go:norace
func (t *Tape) Recorded() []uint32 {
	out := make([]uint32, t.n)
	for i := 0; i < t.n; i++ {
		out[i] = t.buf[i]
	}
	return out
}

// Len reports how many choices were made.
//
//go:norace
func (t *Tape) Len() int { return t.n }

// Mix derives a run seed from the batch seed, a property tag and a run index.
func Mix(seed uint64, tag string, idx uint64) uint64 {
	h := seed ^ 0xcbf29ce484222325
	for i := 0; i < len(tag); i++ {
		h ^= uint64(tag[i])
		h *= 0x100000001b3
	}
	h ^= idx * 0x9e3779b97f4a7c15
	// one splitmix round
	h += 0x9e3779b97f4a7c15
	h = (h ^ (h >> 30)) * 0xbf58476d1ce4e5b9
	h = (h ^ (h >> 27)) * 0x94d049bb133111eb
	return h ^ (h >> 31)
}
