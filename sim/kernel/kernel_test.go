package kernel

import (
	"sync"
	"testing"
)

type shared struct {
	mu sync.Mutex
	x  int
}

func runToy(seed uint64, locked bool, mode int) (hash uint64, races int, x int) {
	tape := NewTape(seed)
	s := NewSched(tape, Config{Mode: mode, Latency: LatUniform})
	sh := &shared{}
	before := RaceErrors()
	fn := func(t *Task) {
		for i := 0; i < 5; i++ {
			s.Yield(KindIO, "call", true)
			if locked {
				s.Yield(KindLock, "lock", true)
				sh.mu.Lock()
			}
			sh.x++
			if locked {
				sh.mu.Unlock()
			}
		}
	}
	ok := s.Run([]func(*Task){fn, fn, fn})
	if !ok {
		panic("stalled")
	}
	return s.Hash, RaceErrors() - before, sh.x
}

func TestToy(t *testing.T) {
	if !RaceBuild {
		t.Skip("needs -race")
	}
	for mode := 0; mode < NumModes; mode++ {
		for seed := uint64(1); seed <= 20; seed++ {
			h1, r1, x1 := runToy(seed, true, mode)
			h2, r2, x2 := runToy(seed, true, mode)
			if h1 != h2 || x1 != 15 || x2 != 15 {
				t.Fatalf("nondeterministic locked run mode %d seed %d: %x %x", mode, seed, h1, h2)
			}
			if r1 != 0 || r2 != 0 {
				t.Fatalf("false race report in locked run mode %d seed %d", mode, seed)
			}
		}
	}
}
