package kernel

import (
	"sync"
	"testing"
)

type shared struct {
	mu sync.Mutex
	x  int
}

func runToy(seed uint64, locked bool, mode int) (hash uint64, races int, x int) {
	tape := NewTape(seed)
	s := NewSched(tape, Config{Mode: mode, Latency: LatUniform})
	sh := &shared{}
	before := RaceErrors()
	fn := func(t *Task) {
		for i := 0; i < 5; i++ {
			s.Yield(KindIO, "call", true)
			if locked {
				s.Yield(KindLock, "lock", true)
				sh.mu.Lock()
			}
			sh.x++
			if locked {
				sh.mu.Unlock()
			}
		}
	}
	ok := s.Run([]func(*Task){fn, fn, fn})
	if !ok {
		panic("stalled")
	}
	return s.Hash, RaceErrors() - before, sh.x
}

func TestToy(t *testing.T) {
	if !RaceBuild {
		t.Skip("needs -race")
	}
	for mode := 0; mode < NumModes; mode++ {
		for seed := uint64(1); seed <= 20; seed++ {
			h1, r1, x1 := runToy(seed, true, mode)
			h2, r2, x2 := runToy(seed, true, mode)
			if h1 != h2 || x1 != 15 || x2 != 15 {
				t.Fatalf("nondeterministic locked run mode %d seed %d: %x %x", mode, seed, h1, h2)
			}
			if r1 != 0 || r2 != 0 {
				t.Fatalf("false race report in locked run mode %d seed %d", mode, seed)
			}
		}
	}
}

// Two tasks rendezvous over an unbuffered channel and a WaitGroup-like done
// channel; the blocking operations are bracketed with BlockBegin/BlockEnd.
func runBlocking(seed uint64, mode int) (uint64, int, bool) {
	tape := NewTape(seed)
	s := NewSched(tape, Config{Mode: mode, Latency: LatUniform})
	ch := make(chan int)
	done := make(chan struct{})
	sum := 0
	prod := func(t *Task) {
		for i := 1; i <= 3; i++ {
			s.Yield(KindIO, "call", true)
			s.BlockBegin("send")
			ch <- i
			s.BlockEnd()
		}
		s.BlockBegin("close")
		close(done)
		s.BlockEnd()
	}
	cons := func(t *Task) {
		for i := 0; i < 3; i++ {
			s.BlockBegin("recv")
			v := <-ch
			s.BlockEnd()
			sum += v
			s.Yield(KindIO, "call", true)
		}
	}
	waiter := func(t *Task) {
		s.BlockBegin("wait")
		<-done
		s.BlockEnd()
	}
	ok := s.Run([]func(*Task){prod, cons, waiter})
	return s.Hash, sum, ok
}

func TestBlocking(t *testing.T) {
	for mode := 0; mode < NumModes; mode++ {
		for seed := uint64(1); seed <= 30; seed++ {
			h1, s1, ok1 := runBlocking(seed, mode)
			h2, s2, ok2 := runBlocking(seed, mode)
			if !ok1 || !ok2 || s1 != 6 || s2 != 6 {
				t.Fatalf("mode %d seed %d: ok=%v,%v sum=%d,%d", mode, seed, ok1, ok2, s1, s2)
			}
			if h1 != h2 {
				t.Fatalf("mode %d seed %d: schedules differ %x %x", mode, seed, h1, h2)
			}
		}
	}
}

func TestDeadlockDetected(t *testing.T) {
	tape := NewTape(7)
	s := NewSched(tape, Config{Mode: ModeUniform})
	ch := make(chan int)
	fn := func(*Task) {
		s.BlockBegin("recv")
		<-ch
		s.BlockEnd()
	}
	quick := func(*Task) { s.Yield(KindOp, "x", false) }
	if s.Run([]func(*Task){fn, quick}) || !s.Deadlock {
		t.Fatalf("deadlock not detected")
	}
}

// A task starts goroutines (Spawn/Enter/Exit), each writes its own slot, the
// parent joins them with a WaitGroup bracketed as a blocking operation.
func runSpawn(seed uint64, mode int) (uint64, int, int) {
	tape := NewTape(seed)
	s := NewSched(tape, Config{Mode: mode, Latency: LatUniform})
	before := RaceErrors()
	sum := 0
	fn := func(t *Task) {
		out := make([]int, 3)
		var wg sync.WaitGroup
		for i := 0; i < 3; i++ {
			wg.Add(1)
			h := s.Spawn()
			go func(i int) {
				s.Enter(h)
				defer func() { s.Exit(h, recover()) }()
				defer wg.Done()
				s.Yield(KindIO, "child", true)
				out[i] = i + 1
			}(i)
		}
		s.BlockBegin("wait")
		wg.Wait()
		s.BlockEnd()
		for _, v := range out {
			sum += v
		}
	}
	if !s.Run([]func(*Task){fn}) {
		panic("stalled")
	}
	return s.Hash, RaceErrors() - before, sum
}

func TestSpawn(t *testing.T) {
	if !RaceBuild {
		t.Skip("needs -race")
	}
	for mode := 0; mode < NumModes; mode++ {
		for seed := uint64(1); seed <= 20; seed++ {
			h1, r1, x1 := runSpawn(seed, mode)
			h2, r2, x2 := runSpawn(seed, mode)
			if h1 != h2 || x1 != 6 || x2 != 6 {
				t.Fatalf("nondeterministic spawn run mode %d seed %d: %x %x sums %d %d", mode, seed, h1, h2, x1, x2)
			}
			if r1 != 0 || r2 != 0 {
				t.Fatalf("false race report in spawn run mode %d seed %d", mode, seed)
			}
		}
	}
}
