package kernel

import (
	"fmt"
	"runtime"
	"sync"
	"sync/atomic"
	"time"
)

// Yield kinds.
const (
	KindIO   = iota // call through a simulated I/O seam; draws a latency
	KindLock        // immediately before a Lock/RLock in the code under test
	KindOp          // operation boundary
)

// Scheduling modes (swarm-chosen per run). 0 is the simplest.
const (
	ModeSerial = iota
	ModeSticky
	ModeUniform
	ModeRoundRobin
	ModePCT
	ModeTargeted
	NumModes
)

// Latency profiles.
const (
	LatNone = iota
	LatUniform
	LatBimodal
	LatHeavy // mostly 1-5 ms, one call in eight a straggler of 100 ms, 1 s, 10 s or 100 s
	NumLat
)

const maxTasks = 2048

// MaxTasks bounds the number of tasks of one run (top-level tasks plus
// goroutines started by the code under test).
const MaxTasks = maxTasks

// hangTicks is how many 100 ms ticks of real time every live task must stay
// blocked inside the code under test before the run is called a deadlock.
const hangTicks = 30

// Config is fixed per run (drawn from the tape by the caller).
type Config struct {
	Mode       int
	StayNum    int // sticky: probability StayNum/StayDen of staying
	StayDen    int
	Latency    int
	PCTDepth   int
	PCTHorizon int
	Target     string // targeted mode: always switch at yields whose label starts with Target
	MaxYields  int
	StallAfter time.Duration
}

// Task is one simulated caller: a real goroutine that runs only while it holds
// the baton.
type Task struct {
	ID      int
	wake    chan struct{}
	done    bool
	wakeAt  int64
	prio    int
	goid    uint64
	ioIssue uint64
	Panic   any
	// state: stRunnable (holds or waits for the baton at a yield), stLimbo
	// (inside a possibly blocking operation of the code under test, without
	// the baton), stArrived (back from it, waiting for the baton).
	state     int32
	keptBaton bool
	selRot    int           // rotation of the case order of the select being polled
	blockedAt string        // label of the blocking operation the task is in (or was last in)
	condKey   uintptr       // the sync.Cond the task waits on (stCondWait)
	condSeq   uint64        // arrival order among the waiters (Signal wakes the earliest)
	timer     bool          // a virtual timer of the code under test (SpawnTimer)
	fin       chan struct{} // closed when a top-level task has ended (visible synchronisation, see JoinCallers)
}

const (
	stRunnable int32 = iota
	stLimbo
	stArrived
	stCondWait // waiting on a simulated sync.Cond (parked by the kernel, not by the runtime)
	stKept     // inside a possibly blocking operation WITH the baton: nobody else could run at the current virtual time
)

// Switch is one recorded context switch.
type Switch struct {
	Step  int
	From  int
	To    int
	Kind  int
	Label string
}

// RaceEvent records that the race-report counter grew while task Task ran the
// slice that ended at yield Step.
type RaceEvent struct {
	Step  int
	Task  int
	Label string
	Delta int
}

// Sched is the cooperative scheduler. Exactly one task runs at a time; control
// moves only inside Yield. The hand-off between goroutines happens inside
// RaceDisable/RaceEnable, so the race detector sees *no* happens-before edge
// between tasks: two tasks that are logically concurrent stay concurrent for
// the detector although the execution is serial and decided by the tape.
type Sched struct {
	tape  *Tape
	cfg   Config
	tasks [maxTasks]*Task
	n     int
	live  int
	cur   int
	now   int64
	seq   uint64

	Yields      int
	SwitchCount int
	IOCalls     int
	Reorders    int
	LockPreempt int // switches taken at a lock point
	MidOpSwitch int // switches taken while the yielding task was inside an operation
	TimeJumps   int
	Hash        uint64
	Aborted     bool // budget exceeded; callers unwind
	Foreign     bool // a goroutine that is not the running task reached a yield

	issue    uint64
	switches [4096]Switch
	nsw      int

	raceSeen int
	races    [64]RaceEvent
	nrace    int

	held             [maxTasks]int
	SkippedUnderLock int
	condSeq          uint64
	CondWaits        int  // waits on a simulated sync.Cond
	Resumed          int  // scheduling resumed after every live task had been blocked (a waiter woken from outside, e.g. by a timer)
	Selects          int  // select statements whose case order was drawn
	BlockOps         int  // possibly blocking operations bracketed
	BlockedWaits     int  // ... that really had to wait for another task
	Deadlock         bool // every live task is blocked inside the code under test
	giveUp           chan struct{}
	allBlocked       int32 // set when the last task able to run ended while others are blocked
	notes            [maxTasks][3]int64
	self             *Task // the task executing BlockBegin (in limbo, but it is us)
	stackBuf         []byte

	pctPts [8]int
	cand   [maxTasks]int
	limbo  [maxTasks]int

	active  bool
	wg      sync.WaitGroup
	Spawned int // goroutines started by the code under test and run as tasks

	noJump     bool          // runnable() must not advance the clock (see BlockBegin)
	poke       chan struct{} // tells Run's goroutine that a task kept the baton while others sleep
	KeptWakes  int           // the clock was advanced because the baton holder turned out to be blocked
	liveTimers int           // live tasks that are virtual timers
	Timers     int           // virtual timers started by the code under test
	Sleeps     int           // virtual sleeps of the code under test
	base       int64
}

// Current is the scheduler of the run in progress (nil outside the concurrent
// phase). It is written by the main goroutine before the fork and after the
// join only.
var Current *Sched

// Debugging aid (VERIF_TRACE): every scheduling decision of the run in
// progress, to compare two executions of one tape.
var (
	TraceOn  bool
	traceBuf [1 << 15]traceRec
	traceN   int
)

type traceRec struct {
	step, from, kind, k, n int
	skipped                int
	label                  string
	mask                   uint64
	now                    int64
}

// TraceLines renders and clears the recorded decisions.
func TraceLines() []string {
	out := make([]string, 0, traceN)
	for i := 0; i < traceN; i++ {
		r := traceBuf[i]
		out = append(out, fmt.Sprintf("step=%d from=%d kind=%d label=%s tasks=%d runnable=%d mask=%b now=%d skippedUnderLock=%d", r.step, r.from, r.kind, r.label, r.n, r.k, r.mask, r.now, r.skipped))
	}
	traceN = 0
	return out
}

// Cur returns Current without the race detector seeing the read: hooks of the
// code under test call it from goroutines the harness has no happens-before
// relation with (a goroutine of the code under test started during a serial
// reference resolution, reading it in its deferred exit hook after it has
// signalled its own join).
//
//go:norace
func Cur() *Sched { return Current }

//go:norace
func setCurrent(s *Sched) { Current = s }

// NewSched creates a scheduler drawing from tape.
func NewSched(tape *Tape, cfg Config) *Sched {
	if cfg.MaxYields == 0 {
		cfg.MaxYields = 20000
	}
	if cfg.StallAfter == 0 {
		cfg.StallAfter = 20 * time.Second
	}
	if cfg.StayDen == 0 {
		cfg.StayNum, cfg.StayDen = 1, 2
	}
	return &Sched{tape: tape, cfg: cfg, Hash: 0xcbf29ce484222325, raceSeen: raceErrors()}
}

// Now returns the virtual time in microseconds.
//
//go:norace
func (s *Sched) Now() int64 { return s.now }

// clockBase is the virtual time at which the scheduler of the phase in
// progress started: virtual time keeps growing across the phases of one run
// (references, preludes, the run proper) and is reset when a run starts.
var clockBase int64

// ResetClock sets the virtual clock back to zero (start of a run).
//
//go:norace
func ResetClock() { clockBase, timersStarted = 0, 0 }

var timersStarted int

// TimersStarted is the number of virtual timers (timers, tickers, context
// deadlines) the code under test has started since ResetClock.
//
//go:norace
func TimersStarted() int { return timersStarted }

// AdvanceClock moves the virtual clock forward between two phases.
//
//go:norace
func AdvanceClock(us int64) {
	if us > 0 {
		clockBase += us
	}
}

// VirtualNow is the virtual time in microseconds since the start of the run,
// whether or not a simulated phase is in progress.
//
//go:norace
func VirtualNow() int64 {
	if s := Current; s != nil {
		return s.base + s.now
	}
	return clockBase
}

// Stamp returns the next global event sequence number.
//
//go:norace
func (s *Sched) Stamp() uint64 {
	s.seq++
	return s.seq
}

// IsAborted reports whether the run's budget was exceeded.
//
//go:norace
func (s *Sched) IsAborted() bool { return s.Aborted }

// Abort marks the run's budget as exceeded.
//
//go:norace
func (s *Sched) Abort() { s.Aborted = true }

// Held records that the running task acquired (+1) or is about to release
// (-1) a lock of the code under test.
//
//go:norace
func (s *Sched) Held(delta int) {
	if !s.active {
		return
	}
	s.held[s.cur] += delta
	if s.held[s.cur] < 0 {
		s.held[s.cur] = 0
	}
}

// CurTask returns the id of the running task.
//
//go:norace
func (s *Sched) CurTask() int { return s.cur }

// Switches returns the recorded context switches.
func (s *Sched) Switches() []Switch { return append([]Switch(nil), s.switches[:s.nsw]...) }

// Races returns the recorded race events.
func (s *Sched) Races() []RaceEvent { return append([]RaceEvent(nil), s.races[:s.nrace]...) }

//go:norace
func (s *Sched) mixHash(task int, kind int, label string) {
	h := s.Hash
	h ^= uint64(task)<<8 | uint64(kind)
	h *= 0x100000001b3
	for i := 0; i < len(label); i++ {
		h ^= uint64(label[i])
		h *= 0x100000001b3
	}
	s.Hash = h
}

//go:norace
func (s *Sched) latency() int64 {
	switch s.cfg.Latency {
	case LatUniform:
		return int64(1+s.tape.Choose(50)) * 1000
	case LatBimodal:
		if s.tape.Bool(1, 10) {
			return 1000 * 1000
		}
		return int64(1+s.tape.Choose(5)) * 1000
	case LatHeavy:
		if s.tape.Bool(1, 8) {
			return [...]int64{100e3, 1e6, 10e6, 100e6}[s.tape.Choose(4)]
		}
		return int64(1+s.tape.Choose(5)) * 1000
	}
	return 0
}

//go:norace
func hasPrefix(s, p string) bool {
	if p == "" || len(s) < len(p) {
		return false
	}
	for i := 0; i < len(p); i++ {
		if s[i] != p[i] {
			return false
		}
	}
	return true
}

// runnable fills s.cand with the ids of runnable tasks (current task first, if
// runnable) and returns how many there are. If nothing is runnable the clock
// jumps to the next wake-up.
//
//go:norace
func (s *Sched) runnable(t *Task) int {
	s.settle()
	// A task that has come back from a blocking operation holding a lock of
	// the code under test (sync.Cond.Wait returns with its mutex locked) goes
	// first: while it waits for the baton nobody else could take that lock.
	for i := 0; i < s.n; i++ {
		u := s.tasks[i]
		if u != t && !u.done && atomic.LoadInt32(&u.state) == stArrived && s.held[u.ID] > 0 {
			s.cand[0] = u.ID
			return 1
		}
	}
	for {
		k := 0
		if t != nil && !t.done && t.state == stRunnable && t.wakeAt <= s.now {
			s.cand[k] = t.ID
			k++
		}
		for i := 0; i < s.n; i++ {
			u := s.tasks[i]
			if u == t || u.done {
				continue
			}
			switch atomic.LoadInt32(&u.state) {
			case stArrived:
			case stRunnable:
				if u.wakeAt > s.now {
					continue
				}
			default:
				continue // blocked inside the code under test
			}
			s.cand[k] = u.ID
			k++
		}
		if k > 0 {
			return k
		}
		min := int64(-1)
		for i := 0; i < s.n; i++ {
			u := s.tasks[i]
			if u.done || atomic.LoadInt32(&u.state) != stRunnable {
				continue
			}
			if min < 0 || u.wakeAt < min {
				min = u.wakeAt
			}
		}
		if min < 0 || s.noJump {
			return 0
		}
		s.now = min
		s.TimeJumps++
	}
}

// settle waits until every task that is inside a possibly blocking operation
// has either come back (arrived) or is really blocked in the Go runtime, so
// that the set of runnable tasks is a function of the program and not of real
// time. It reads goroutine states from a stack dump; this happens only while
// such tasks exist.
//
//go:norace
func (s *Sched) settle() {
	for spin := 0; ; spin++ {
		// Which tasks are inside a possibly blocking operation? Read before
		// the dump is taken: a task that has come back since then is parked
		// waiting for the baton and shows as blocked too.
		k := 0
		for i := 0; i < s.n; i++ {
			u := s.tasks[i]
			if u.done || u == s.self || atomic.LoadInt32(&u.state) != stLimbo {
				continue
			}
			s.limbo[k] = i
			k++
		}
		if k == 0 {
			return
		}
		// One dump decides for all of them: if every one is parked at that
		// instant, nobody is on its way to wake another (the caller holds the
		// baton and every other task is parked by the kernel), so the states
		// read after this point are stable.
		dump := settleBuf[:runtime.Stack(settleBuf, true)]
		pending := false
		for j := 0; j < k && !pending; j++ {
			if !goroutineBlocked(dump, s.tasks[s.limbo[j]].goid) {
				pending = true
			}
		}
		if !pending {
			return
		}
		if spin > 200000 {
			return // the stall watchdog takes over
		}
		runtime.Gosched()
	}
}

// Buffers for goroutine dumps: settleBuf is used by the task that holds the
// baton, watchBuf by Run's goroutine; one scheduler is active at a time.
var (
	settleBuf = make([]byte, 8<<20)
	watchBuf  = make([]byte, 8<<20)
)

// goroutineBlocked reports whether goroutine id is parked in the runtime
// (any wait reason) according to a full stack dump.
//
//go:norace
func goroutineBlocked(dump []byte, id uint64) bool {
	var pat [40]byte
	n := copy(pat[:], "goroutine ")
	var digits [20]byte
	d := len(digits)
	for x := id; ; x /= 10 {
		d--
		digits[d] = byte('0' + x%10)
		if x < 10 {
			break
		}
	}
	n += copy(pat[n:], digits[d:])
	n += copy(pat[n:], " [")
	p := pat[:n]
	for i := 0; i+len(p) < len(dump); i++ {
		if dump[i] != 'g' || (i > 0 && dump[i-1] != '\n') {
			continue
		}
		match := true
		for j := range p {
			if dump[i+j] != p[j] {
				match = false
				break
			}
		}
		if !match {
			continue
		}
		st := dump[i+len(p):]
		// Only user-level synchronisation counts as blocked: a goroutine
		// parked for a GC assist, a preemption or a debug call is still on
		// its way.
		for _, r := range blockedReasons {
			if hasPrefixB(st, r) {
				return true
			}
		}
		return false
	}
	return false // not found: it may be exiting; treat as still moving
}

var blockedReasons = [...]string{
	"chan receive", "chan send", "select", "sync.Cond.Wait", "sync.WaitGroup.Wait",
	"sync.Mutex.Lock", "sync.RWMutex.RLock", "sync.RWMutex.Lock", "semacquire", "sleep", "IO wait",
}

//go:norace
func hasPrefixB(b []byte, p string) bool {
	if len(b) < len(p) {
		return false
	}
	for i := 0; i < len(p); i++ {
		if b[i] != p[i] {
			return false
		}
	}
	return true
}

// pick chooses the next task to run after t yielded.
//
//go:norace
func (s *Sched) pick(t *Task, kind int, label string) *Task {
	k := s.runnable(t)
	if TraceOn && traceN < len(traceBuf) {
		r := &traceBuf[traceN]
		traceN++
		r.step, r.from, r.kind, r.label, r.k, r.now, r.n = s.Yields, -1, kind, label, k, s.now, s.n
		r.skipped = s.SkippedUnderLock
		if t != nil {
			r.from = t.ID
		}
		r.mask = 0
		for i := 0; i < k; i++ {
			if s.cand[i] < 64 {
				r.mask |= 1 << uint(s.cand[i])
			}
		}
	}
	if k == 0 {
		return nil
	}
	if k == 1 {
		return s.tasks[s.cand[0]]
	}
	selfOK := t != nil && s.cand[0] == t.ID
	switch s.cfg.Mode {
	case ModeSerial:
		if selfOK {
			return t
		}
		// lowest id
		best := s.cand[0]
		for i := 1; i < k; i++ {
			if s.cand[i] < best {
				best = s.cand[i]
			}
		}
		return s.tasks[best]
	case ModeSticky:
		if selfOK {
			if !s.tape.Bool(s.cfg.StayDen-s.cfg.StayNum, s.cfg.StayDen) {
				return t
			}
			return s.tasks[s.cand[1+s.tape.Choose(k-1)]]
		}
		return s.tasks[s.cand[s.tape.Choose(k)]]
	case ModeRoundRobin:
		from := -1
		if t != nil {
			from = t.ID
		}
		for d := 1; d <= s.n; d++ {
			id := (from + d) % s.n
			for i := 0; i < k; i++ {
				if s.cand[i] == id {
					return s.tasks[id]
				}
			}
		}
		return s.tasks[s.cand[0]]
	case ModePCT:
		for i := 0; i < s.cfg.PCTDepth && i < len(s.pctPts); i++ {
			if s.pctPts[i] == s.Yields && t != nil {
				t.prio = -s.Yields // below every initial priority and every earlier demotion
			}
		}
		best := s.cand[0]
		for i := 1; i < k; i++ {
			if s.tasks[s.cand[i]].prio > s.tasks[best].prio {
				best = s.cand[i]
			}
		}
		return s.tasks[best]
	case ModeTargeted:
		if selfOK {
			if hasPrefix(label, s.cfg.Target) {
				return s.tasks[s.cand[1+s.tape.Choose(k-1)]]
			}
			// otherwise mostly stay
			if !s.tape.Bool(1, 8) {
				return t
			}
			return s.tasks[s.cand[1+s.tape.Choose(k-1)]]
		}
		return s.tasks[s.cand[s.tape.Choose(k)]]
	}
	// ModeUniform
	return s.tasks[s.cand[s.tape.Choose(k)]]
}

//go:norace
func (s *Sched) pollRace(t *Task, label string) {
	n := raceErrors()
	if n > s.raceSeen {
		if s.nrace < len(s.races) {
			s.races[s.nrace] = RaceEvent{Step: s.Yields, Task: t.ID, Label: label, Delta: n - s.raceSeen}
			s.nrace++
		}
		s.raceSeen = n
	}
}

// Yield is called by the running task at every yield point.
//
//go:norace
func (s *Sched) Yield(kind int, label string, inOp bool) { s.yield(kind, label, inOp, -1) }

// Sleep is a yield after which the task is not runnable before delay
// microseconds of virtual time have passed (time.Sleep of the code under
// test). It reports false outside a simulated phase.
//
//go:norace
func (s *Sched) Sleep(us int64, label string) bool {
	if !s.active {
		return false
	}
	if us < 0 {
		us = 0
	}
	s.Sleeps++
	s.yield(KindOp, label, true, us)
	return true
}

//go:norace
func (s *Sched) yield(kind int, label string, inOp bool, delay int64) {
	if !s.active {
		return
	}
	t := s.tasks[s.cur]
	if curGoid() != t.goid {
		// A goroutine the simulator does not control reached a seam: the
		// schedule is no longer ours to decide.
		s.Foreign = true
		return
	}
	if s.held[t.ID] > 0 {
		// never park a task that holds a lock of the code under test: another
		// task could block on the real mutex and nobody would run
		s.SkippedUnderLock++
		return
	}
	s.pollRace(t, label)
	raceDisable()
	s.Yields++
	s.mixHash(t.ID, kind, label)
	if s.Yields > s.cfg.MaxYields || s.tape.Over {
		s.Aborted = true
	}
	if t.ioIssue != 0 {
		// t is resuming... (cannot happen here: ioIssue is cleared on resume)
		t.ioIssue = 0
	}
	if kind == KindIO {
		s.IOCalls++
		s.issue++
		t.ioIssue = s.issue
		t.wakeAt = s.now + s.latency()
	}
	if delay >= 0 {
		t.wakeAt = s.now + delay
	}
	next := s.pick(t, kind, label)
	if next != t {
		s.SwitchCount++
		if kind == KindLock {
			s.LockPreempt++
		}
		if inOp {
			s.MidOpSwitch++
		}
		if s.nsw < len(s.switches) {
			s.switches[s.nsw] = Switch{Step: s.Yields, From: t.ID, To: next.ID, Kind: kind, Label: label}
			s.nsw++
		}
		s.cur = next.ID
		atomic.StoreInt32(&next.state, stRunnable)
		next.wake <- struct{}{}
		<-t.wake
	}
	// t runs again: if it was waiting for an I/O completion, see whether an
	// earlier-issued call of another task is still outstanding (reordering).
	if t.ioIssue != 0 {
		for i := 0; i < s.n; i++ {
			u := s.tasks[i]
			if u != t && !u.done && u.ioIssue != 0 && u.ioIssue < t.ioIssue {
				s.Reorders++
				break
			}
		}
		t.ioIssue = 0
	}
	raceEnable()
}

// SelBegin is called by the running task before it polls the cases of a
// select statement of the code under test (see the overlay's select
// pre-pass): the order in which the cases are tried comes from the tape.
//
//go:norace
func (s *Sched) SelBegin(label string, k int) {
	if !s.active || k < 2 {
		return
	}
	t := s.tasks[s.cur]
	if curGoid() != t.goid {
		s.Foreign = true
		return
	}
	t.selRot = s.tape.Choose(k)
	s.Selects++
	s.mixHash(t.ID, KindLock, label)
}

// SelNext returns the case to try at position i.
//
//go:norace
func (s *Sched) SelNext(i, k int) int {
	if !s.active || k < 2 {
		return i
	}
	t := s.tasks[s.cur]
	if curGoid() != t.goid {
		s.Foreign = true
		return i
	}
	return (t.selRot + i) % k
}

// CondWait parks the running task until CondSignal/CondBroadcast on the same
// key has chosen it and the scheduler has picked it again. It is the kernel's
// own implementation of sync.Cond.Wait (the caller has released the Cond's
// mutex before and takes it again afterwards): with the real one, the waiters
// woken by a Broadcast would race for the mutex and the runtime, not the
// tape, would decide who goes on first.
//
//go:norace
func (s *Sched) CondWait(key uintptr, label string) {
	if !s.active {
		return
	}
	t := s.tasks[s.cur]
	if curGoid() != t.goid {
		s.Foreign = true
		return
	}
	s.pollRace(t, label)
	raceDisable()
	s.Yields++
	s.CondWaits++
	s.mixHash(t.ID, KindLock, label)
	if s.Yields > s.cfg.MaxYields || s.tape.Over {
		s.Aborted = true
	}
	s.condSeq++
	t.condKey, t.condSeq, t.blockedAt = key, s.condSeq, label
	atomic.StoreInt32(&t.state, stCondWait)
	next := s.pick(nil, KindOp, label)
	if next == nil {
		// every other task is blocked too: only a waiter woken from outside
		// the simulator (a timer) can get things going again; Run watches
		atomic.StoreInt32(&s.allBlocked, 1)
	} else {
		s.SwitchCount++
		s.MidOpSwitch++
		if s.nsw < len(s.switches) {
			s.switches[s.nsw] = Switch{Step: s.Yields, From: t.ID, To: next.ID, Kind: KindLock, Label: label}
			s.nsw++
		}
		s.cur = next.ID
		atomic.StoreInt32(&next.state, stRunnable)
		next.wake <- struct{}{}
	}
	<-t.wake
	raceEnable()
}

// CondSignal makes the earliest waiter on key runnable (all of them if
// broadcast). Which of several runnable tasks continues is the scheduler's
// choice, as for any other yield.
//
//go:norace
func (s *Sched) CondSignal(key uintptr, broadcast bool) {
	if !s.active {
		return
	}
	for {
		var first *Task
		for i := 0; i < s.n; i++ {
			u := s.tasks[i]
			if !u.done && atomic.LoadInt32(&u.state) == stCondWait && u.condKey == key && (first == nil || u.condSeq < first.condSeq) {
				first = u
			}
		}
		if first == nil {
			return
		}
		first.wakeAt = s.now
		atomic.StoreInt32(&first.state, stRunnable)
		if !broadcast {
			return
		}
	}
}

// BlockBegin is called by the running task immediately before an operation
// of the code under test that may block until another task acts (channel
// receive/send, select without default, Wait). The task gives the baton away
// first (this is a forced preemption point) and performs the operation
// without it; BlockEnd takes the baton back.
//
//go:norace
func (s *Sched) BlockBegin(label string) {
	if !s.active {
		return
	}
	t := s.tasks[s.cur]
	if curGoid() != t.goid {
		s.Foreign = true
		return
	}
	s.pollRace(t, label)
	raceDisable()
	s.Yields++
	s.BlockOps++
	s.mixHash(t.ID, KindLock, label)
	if s.Yields > s.cfg.MaxYields || s.tape.Over {
		s.Aborted = true
	}
	t.blockedAt = label
	atomic.StoreInt32(&t.state, stLimbo)
	// Virtual time advances only when every task is asleep or blocked. This
	// task is neither yet: the operation it is about to perform may complete
	// at once, or wake another task. So the clock is not moved here.
	s.self = t
	s.noJump = true
	next := s.pick(nil, KindOp, label)
	s.noJump = false
	s.self = nil
	if next == nil && s.hasSleepers() {
		// Nobody can run at the current virtual time, but some task sleeps
		// (an I/O completion, a timer). Keep the baton and perform the
		// operation; if it turns out to block, Run's goroutine notices,
		// advances the clock and hands the baton to whoever wakes first.
		atomic.StoreInt32(&t.state, stKept)
		select {
		case s.poke <- struct{}{}:
		default:
		}
	} else if next == nil {
		// nobody else can run: keep the baton and perform the operation
		atomic.StoreInt32(&t.state, stRunnable)
		t.keptBaton = true
	} else {
		s.SwitchCount++
		s.MidOpSwitch++
		if s.nsw < len(s.switches) {
			s.switches[s.nsw] = Switch{Step: s.Yields, From: t.ID, To: next.ID, Kind: KindLock, Label: label}
			s.nsw++
		}
		s.cur = next.ID
		atomic.StoreInt32(&next.state, stRunnable)
		next.wake <- struct{}{}
	}
	raceEnable()
}

// BlockEnd is called right after the possibly blocking operation returned.
//
//go:norace
func (s *Sched) BlockEnd() {
	if !s.active {
		return
	}
	id := curGoid()
	var t *Task
	for i := 0; i < s.n; i++ {
		if s.tasks[i].goid == id {
			t = s.tasks[i]
		}
	}
	if t == nil {
		s.Foreign = true
		return
	}
	if atomic.LoadInt32(&t.state) == stKept {
		if atomic.CompareAndSwapInt32(&t.state, stKept, stRunnable) {
			return // came back with the baton
		}
		// Run's goroutine found the task blocked and gave the baton away
	} else if t.keptBaton {
		t.keptBaton = false
		return
	}
	raceDisable()
	atomic.StoreInt32(&t.state, stArrived)
	<-t.wake
	raceEnable()
}

// hasSleepers reports whether some task is waiting for a later virtual time.
//
//go:norace
func (s *Sched) hasSleepers() bool {
	for i := 0; i < s.n; i++ {
		u := s.tasks[i]
		if !u.done && atomic.LoadInt32(&u.state) == stRunnable && u.wakeAt > s.now && u != s.tasks[s.cur] {
			return true
		}
	}
	return false
}

// watchKept runs on Run's goroutine after a task kept the baton for a
// possibly blocking operation while other tasks sleep. If the task is really
// blocked, virtual time may advance: the baton goes to whoever wakes first.
//
//go:norace
func (s *Sched) watchKept() {
	t := s.tasks[s.cur]
	if t == nil {
		return
	}
	buf := watchBuf
	for spin := 0; spin < 2000000; spin++ {
		if atomic.LoadInt32(&t.state) != stKept {
			return // the operation completed
		}
		dump := buf[:runtime.Stack(buf, true)]
		if goroutineBlocked(dump, t.goid) {
			if !atomic.CompareAndSwapInt32(&t.state, stKept, stLimbo) {
				return
			}
			raceDisable()
			s.KeptWakes++
			next := s.pick(nil, KindOp, "clock")
			if next != nil {
				s.cur = next.ID
				atomic.StoreInt32(&next.state, stRunnable)
				next.wake <- struct{}{}
			} else {
				atomic.StoreInt32(&s.allBlocked, 1)
			}
			raceEnable()
			return
		}
		runtime.Gosched()
	}
}

//go:norace
func (s *Sched) park(t *Task) {
	raceDisable()
	<-t.wake
	raceEnable()
}

//go:norace
func (s *Sched) finish(t *Task) {
	s.pollRace(t, "end")
	raceDisable()
	t.done = true
	t.ioIssue = 0
	s.live--
	if t.timer {
		s.liveTimers--
	}
	if s.live > 0 {
		next := s.pick(nil, KindOp, "end")
		if next != nil {
			s.cur = next.ID
			atomic.StoreInt32(&next.state, stRunnable)
			next.wake <- struct{}{}
		} else {
			// every remaining task is blocked inside the code under test;
			// Run watches whether that lasts
			atomic.StoreInt32(&s.allBlocked, 1)
		}
	}
	raceEnable()
}

//go:norace
func (s *Sched) setGoid(t *Task) { t.goid = curGoid() }

func (s *Sched) taskMain(t *Task, fn func(*Task), wg *sync.WaitGroup) {
	defer wg.Done()
	s.setGoid(t)
	s.park(t)
	func() {
		defer func() {
			if r := recover(); r != nil {
				t.Panic = r
			}
		}()
		fn(t)
	}()
	s.finish(t)
	close(t.fin)
}

//go:norace
func (s *Sched) start() {
	// PCT set-up and first pick happen on the main goroutine while every task
	// is parked.
	if s.cfg.Mode == ModePCT {
		for i := 0; i < s.n; i++ {
			s.tasks[i].prio = 1 + s.tape.Choose(1000)
		}
		h := s.cfg.PCTHorizon
		if h <= 0 {
			h = 200
		}
		for i := 0; i < s.cfg.PCTDepth && i < len(s.pctPts); i++ {
			s.pctPts[i] = 1 + s.tape.Choose(h)
		}
	}
	first := s.pick(nil, KindOp, "start")
	s.cur = first.ID
	s.active = true
	raceDisable()
	first.wake <- struct{}{}
	raceEnable()
}

// Run executes the task functions under the scheduler and returns false if
// the run stalled (a task did not come back within the real-time limit).
// Fork (go statement) and join (WaitGroup) are ordinary, visible
// synchronisation, so set-up happens-before every task and every task
// happens-before result collection.
func (s *Sched) Run(fns []func(*Task)) bool {
	if len(fns) > maxTasks {
		panic("too many tasks")
	}
	wg := &s.wg
	s.base = clockBase
	s.giveUp = make(chan struct{})
	s.poke = make(chan struct{}, 1)
	s.n = len(fns)
	s.live = len(fns)
	for i := range fns {
		s.tasks[i] = &Task{ID: i, wake: make(chan struct{}, 1), fin: make(chan struct{})}
	}
	setCurrent(s)
	for i, fn := range fns {
		wg.Add(1)
		go s.taskMain(s.tasks[i], fn, wg)
	}
	// Let every task record its goroutine id and park. (Parking is not
	// required for correctness: wake is buffered.)
	s.start()
	done := make(chan struct{})
	go func() {
		wg.Wait()
		close(done)
	}()
	timer := time.NewTimer(s.cfg.StallAfter)
	defer timer.Stop()
	tick := time.NewTicker(100 * time.Millisecond)
	defer tick.Stop()
	suspect := 0
	for {
		select {
		case <-done:
			s.active = false
			setCurrent(nil)
			AdvanceClock(s.now)
			return true
		case <-s.giveUp:
			return false
		case <-s.poke:
			s.watchKept()
		case <-timer.C:
			return false
		case <-tick.C:
			// A task that kept the baton (nobody else could run) and is now
			// parked inside its blocking operation will not come back unless
			// something outside the simulator (a timer) wakes it; likewise
			// when the last runnable task ended and the others are blocked.
			// If that lasts for HangAfter of real time the run is a deadlock.
			switch s.watch() {
			case watchBlocked:
				suspect++
				if suspect >= hangTicks {
					s.Deadlock = true
					return false
				}
			default:
				suspect = 0
			}
		}
	}
}

const (
	watchMoving = iota
	watchBlocked
)

// watch is called from Run's goroutine every tick.
//
//go:norace
func (s *Sched) watch() int {
	if atomic.LoadInt32(&s.allBlocked) == 0 {
		if t := s.tasks[s.cur]; t != nil && atomic.LoadInt32(&t.state) == stKept {
			s.watchKept() // a missed poke
			return watchMoving
		}
		if s.keptAndBlocked() {
			return watchBlocked
		}
		return watchMoving
	}
	// nobody holds the baton: has a blocked task come back (woken from
	// outside the simulator)? Then scheduling resumes with it.
	buf := watchBuf
	dump := buf[:runtime.Stack(buf, true)]
	moving := false
	for i := 0; i < s.n; i++ {
		u := s.tasks[i]
		if u.done {
			continue
		}
		switch atomic.LoadInt32(&u.state) {
		case stArrived:
			atomic.StoreInt32(&s.allBlocked, 0)
			s.Resumed++
			raceDisable()
			next := s.pick(nil, KindOp, "resume")
			if next != nil {
				s.cur = next.ID
				atomic.StoreInt32(&next.state, stRunnable)
				next.wake <- struct{}{}
			}
			raceEnable()
			return watchMoving
		case stLimbo:
			if !goroutineBlocked(dump, u.goid) {
				moving = true
			}
		}
	}
	if moving {
		return watchMoving
	}
	return watchBlocked
}

// CallersDone reports, after a run that ended in a deadlock, whether the
// first n tasks (the callers) have all ended: what is still blocked then are
// goroutines the code under test started and left behind.
//
//go:norace
func (s *Sched) CallersDone(n int) bool {
	for i := 0; i < n && i < s.n; i++ {
		if !s.tasks[i].done {
			return false
		}
	}
	return true
}

// JoinCallers waits for the first n tasks, which have ended, through visible
// synchronisation, so that what they wrote may be read; the scheduler is then
// retired although some goroutines of the code under test never ended.
func (s *Sched) JoinCallers(n int) {
	for i := 0; i < n && i < s.n; i++ {
		<-s.tasks[i].fin
	}
	s.retire()
}

//go:norace
func (s *Sched) retire() {
	s.active = false
	setCurrent(nil)
	AdvanceClock(s.now)
}

// LiveTasks returns how many tasks have not ended yet.
//
//go:norace
func (s *Sched) LiveTasks() int { return s.live - s.liveTimers }

// SpawnTimer is Spawn for a virtual timer of the code under test: the new
// task becomes runnable when us microseconds of virtual time have passed. Like
// any goroutine it is created by a visible go statement of its creator (what
// happened before the timer was set happens-before what runs when it fires,
// as in production).
//
//go:norace
func (s *Sched) SpawnTimer(us int64) int {
	h := s.Spawn()
	if h < 0 {
		return h
	}
	if us < 0 {
		us = 0
	}
	c := s.tasks[h]
	c.timer = true
	c.wakeAt = s.now + us
	s.liveTimers++
	s.Timers++
	timersStarted++
	return h
}

// Hasten makes a sleeping timer task runnable now (its timer was stopped: it
// only has to end).
//
//go:norace
func (s *Sched) Hasten(h int) {
	if !s.active || h < 0 || h >= s.n {
		return
	}
	if c := s.tasks[h]; !c.done && c.wakeAt > s.now {
		c.wakeAt = s.now
	}
}

// OnlyTimersLive reports whether every live task is a virtual timer (a
// ticker then has nobody left to tick for).
//
//go:norace
func (s *Sched) OnlyTimersLive() bool { return s.live == s.liveTimers }

// SetNote / Note are two integer slots per task for the workload's own
// bookkeeping that must stay readable after a run that did not join (a
// deadlock): like all kernel state they are invisible to the race detector.
//
//go:norace
func (s *Sched) SetNote(task, slot int, v int64) {
	if task >= 0 && task < maxTasks {
		s.notes[task][slot] = v
	}
}

//go:norace
func (s *Sched) Note(task, slot int) int64 {
	if task < 0 || task >= maxTasks {
		return 0
	}
	return s.notes[task][slot]
}

// BlockedTasks returns, after a deadlock, the ids of the tasks blocked inside
// the code under test and the labels of the operations they are blocked in.
//
//go:norace
func (s *Sched) BlockedTasks() (ids []int, labels []string) {
	for i := 0; i < s.n; i++ {
		u := s.tasks[i]
		if u.done {
			continue
		}
		if st := atomic.LoadInt32(&u.state); st == stLimbo || st == stCondWait || st == stKept || u.keptBaton {
			ids = append(ids, u.ID)
			labels = append(labels, u.blockedAt)
		}
	}
	return
}

//go:norace
func (s *Sched) keptAndBlocked() bool {
	t := s.tasks[s.cur]
	if t == nil || !(t.keptBaton || atomic.LoadInt32(&t.state) == stKept) {
		return false
	}
	buf := watchBuf
	dump := buf[:runtime.Stack(buf, true)]
	return goroutineBlocked(dump, t.goid)
}

// N returns the number of tasks of the run, spawned ones included.
//
//go:norace
func (s *Sched) N() int { return s.n }

// Spawn is called by the running task immediately before a go statement of
// the code under test. It registers the goroutine about to start as a new
// task (runnable from now on, it starts when the scheduler first picks it)
// and returns its handle, or -1 outside a simulated phase. The go statement
// itself is ordinary, visible synchronisation: what the parent did before it
// happens-before everything the child does, as in production.
//
//go:norace
func (s *Sched) Spawn() int {
	if !s.active {
		return -1
	}
	t := s.tasks[s.cur]
	if curGoid() != t.goid {
		s.Foreign = true
		return -1
	}
	if s.n >= maxTasks {
		s.Foreign = true // more goroutines than the simulator has room for
		return -1
	}
	raceDisable()
	id := s.n
	c := &Task{ID: id, wake: make(chan struct{}, 1)}
	if s.cfg.Mode == ModePCT {
		c.prio = 1 + s.tape.Choose(1000)
	}
	s.tasks[id] = c
	s.n++
	s.live++
	s.Spawned++
	s.mixHash(t.ID, KindOp, "go")
	raceEnable()
	s.wg.Add(1)
	return id
}

// Enter is the first thing a spawned goroutine does: it records which
// goroutine it is and waits for the baton.
//
//go:norace
func (s *Sched) Enter(h int) {
	if h < 0 || h >= s.n {
		return
	}
	t := s.tasks[h]
	t.goid = curGoid()
	raceDisable()
	<-t.wake
	raceEnable()
}

// Exit is the last thing a spawned goroutine does (deferred): the task ends
// and the baton moves on. pv is the value the goroutine panicked with, if any.
func (s *Sched) Exit(h int, pv any) {
	if h < 0 || h >= s.n {
		if pv != nil {
			panic(pv)
		}
		return
	}
	t := s.tasks[h]
	if pv != nil {
		t.Panic = pv
	}
	s.finish(t)
	s.wg.Done()
}

// TaskPanic returns the panic value of task i, if it panicked outside an
// operation.
func (s *Sched) TaskPanic(i int) any { return s.tasks[i].Panic }
