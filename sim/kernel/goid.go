package kernel

import "runtime"

// curGoid returns the id of the calling goroutine, parsed from the header of
// its stack dump ("goroutine 123 [running]:").
//
//go:norace
func curGoid() uint64 {
	var buf [40]byte
	n := runtime.Stack(buf[:], false)
	var id uint64
	for i := len("goroutine "); i < n; i++ {
		c := buf[i]
		if c < '0' || c > '9' {
			break
		}
		id = id*10 + uint64(c-'0')
	}
	return id
}
