// Package props holds one simulated workload + oracle set per claimed
// property. Each Run* function is a pure function of (tape, code under test).
package props

import (
	"context"
	"errors"
	"fmt"
	"hash/fnv"
	"sort"
	"strings"

	"deps.dev/util/resolve"
	"deps.dev/util/semver/verifhook"
	"verif/sim/kernel"
	"verif/sim/rt"
)

// Aliases of the shared run types.
type (
	Violation = rt.Violation
	Result    = rt.Result
	Opts      = rt.Opts
)

func fault(r *Result, k string, n int) {
	if n == 0 {
		return
	}
	if r.Faults == nil {
		r.Faults = map[string]int{}
	}
	r.Faults[k] += n
}

func probe(r *Result, k string, n int) {
	if n == 0 {
		return
	}
	if r.Probes == nil {
		r.Probes = map[string]int{}
	}
	r.Probes[k] += n
}

func violate(r *Result, kind, key string, step int, format string, args ...any) {
	for _, v := range r.Violations {
		if v.Key == key {
			return // one per key per run
		}
	}
	d := fmt.Sprintf(format, args...)
	if len(d) > 4000 {
		d = d[:4000] + "…"
	}
	r.Violations = append(r.Violations, Violation{Kind: kind, Key: key, Step: step, Detail: d})
}

// hang turns a deadlocked run into a violation when a caller's operation is
// among the blocked: the operation does not return, where the same operation
// on fresh objects returned a graph. Tasks whose current operation was aborted
// by a fault are exempt (an aborted operation is not judged), and so are
// goroutines the code under test started itself (a leaked goroutine is not a
// caller waiting for an answer).
func hang(res *Result, s *kernel.Sched, ncallers int, aborted func(task int) bool, what func(task int) string, key string) bool {
	ids, labels := s.BlockedTasks()
	for i, id := range ids {
		if id >= ncallers || (aborted != nil && aborted(id)) {
			continue
		}
		var all []string
		for j, x := range ids {
			all = append(all, fmt.Sprintf("task %d at %s", x, labels[j]))
		}
		violate(res, "hang", key, 0, "%s does not return: every live task is blocked inside the code under test and stayed so for 3 s of real time (%s); task %d is blocked at %s", what(id), strings.Join(all, "; "), id, labels[i])
		return true
	}
	return false
}

// serialStalled is set when a resolution run outside the run proper (a
// reference, a prelude) did not come back; the run is then discarded and the
// worker process abandoned, as for any stalled run.
var serialStalled bool

// serialResolve runs one resolution that is not part of the run proper - a
// serial reference, a prelude - under a scheduler of its own (serial mode: the
// caller runs until it blocks or ends, then the lowest-numbered runnable
// goroutine of the code under test). Code under test that starts goroutines
// would otherwise run them free there, and what the reference observes
// (which of two racing goroutines asked the client first, how many client
// calls were made) would not be a function of the tape.
func serialResolve(t *kernel.Tape, r resolve.Resolver, ctx context.Context, vk resolve.VersionKey) (g *resolve.Graph, err error, pv any) {
	s := kernel.NewSched(t, kernel.Config{Mode: kernel.ModeSerial})
	if !s.Run([]func(*kernel.Task){func(*kernel.Task) { g, err, pv = resolveOnce(r, ctx, vk) }}) {
		serialStalled = true
		return nil, errBudget, nil
	}
	return g, err, pv
}

func hashStrings(parts ...string) string {
	h := fnv.New64a()
	for _, p := range parts {
		h.Write([]byte(p))
		h.Write([]byte{0})
	}
	return fmt.Sprintf("%016x", h.Sum64())
}

var errBudget = errors.New("simulation budget exceeded")

// kernel note slots (readable after a run that deadlocked)
const (
	noteOp    = 0 // 1 + index of the operation the task is executing, 0: none
	noteFired = 1 // the fault of that operation has fired
	noteCap   = 2 // the operation exceeded the per-operation cap on client calls: number of live tasks then
)

// livelockFactor: an undisturbed operation that makes more than this many
// times the client calls of the serial reference for the same root (and hits
// the per-operation cap) is reported as not terminating.
const livelockFactor = 100

// errInjected is what a client call answers when the fault plan of the
// running operation says so: a transient failure of the (simulated) network
// client. It is not ErrNotFound.
var errInjected = errors.New("injected fault: service unavailable")

// Fault kinds of an operation (the aborted-operation fault family). The fault
// fires at the operation's at-th client call, if it makes that many.
const (
	faultNone        = 0
	faultCancel      = 1 // the operation's context is cancelled; client calls keep answering
	faultCancelCalls = 2 // cancelled, and this and every later call of the operation answers ctx.Err()
	faultErrOnce     = 3 // that one call answers errInjected
	faultErrFrom     = 4 // that call and every later call of the operation answer errInjected
	faultErrEvery    = 5 // from that call on, every second, third or fourth call answers errInjected
	numFaultKinds    = 6
)

var faultNames = [...]string{"none", "cancel", "cancel+calls-fail", "client-error-once", "client-errors-from", "client-errors-intermittent"}

// callKinds are the client calls a fault can be aimed at (0: any call).
var callKinds = [...]string{"", "MatchingVersions", "Requirements", "Versions", "Version", "MatchingVersions:latest"}

func callKindIndex(label string) int {
	for i := 1; i < len(callKinds); i++ {
		if callKinds[i] == label {
			return i
		}
	}
	return 0
}

// simClient is the simulated resolve.Client seam: every call is a yield point
// with a drawn latency (exactly where production code would block on I/O).
// All bookkeeping shared between tasks lives in the kernel.
type simClient struct {
	inner   resolve.Client
	s       *kernel.Sched
	cancels []context.CancelFunc // per task
	calls   []int                // per task, calls in the current operation
	maxCall int
	// fault plan of each task's current operation; a task touches only its
	// own slots
	fkind   []int
	fat     []int
	flabel  []int // 0: count every call; else only calls of callKinds[flabel]
	fperiod []int
	fcount  []int
	fired   []bool
}

// sched / setSched: see simService.sched.
//
//go:norace
func (c *simClient) sched() *kernel.Sched { return c.s }

//go:norace
func (c *simClient) setSched(s *kernel.Sched) { c.s = s }

// plan sets the fault plan of the running task's next operation: the fault
// fires at the at-th call (of the given kind, if label != 0).
func (c *simClient) plan(t, kind, label, at, period int) {
	if c.fkind == nil {
		return
	}
	c.fkind[t], c.flabel[t], c.fat[t], c.fperiod[t], c.fcount[t], c.fired[t] = kind, label, at, period, 0, false
}

func (c *simClient) enableFaults() {
	n := len(c.calls)
	c.fkind, c.fat, c.flabel, c.fperiod, c.fcount, c.fired = make([]int, n), make([]int, n), make([]int, n), make([]int, n), make([]int, n), make([]bool, n)
}

// aimed reports whether a call is of the kind a fault is aimed at. The last
// kind is the lookup of the npm dist-tag "latest", a site where the resolver
// swallows client errors.
func aimed(kind int, label, detail string) bool {
	switch {
	case kind == 0:
		return true
	case callKinds[kind] == "MatchingVersions:latest":
		return label == "MatchingVersions" && detail == "latest"
	}
	return callKinds[kind] == label
}

func (c *simClient) enter(ctx context.Context, label string) error {
	return c.enterCall(ctx, label, "")
}

func (c *simClient) enterCall(ctx context.Context, label, detail string) error {
	s := c.sched()
	if s == nil {
		return nil
	}
	if s.IsAborted() {
		return errBudget
	}
	t := s.CurTask()
	c.calls[t]++
	if c.calls[t] > c.maxCall {
		if !s.IsAborted() {
			// this task's operation hit the per-operation cap first; remember
			// how many tasks were still alive at that moment
			s.SetNote(t, noteCap, int64(s.LiveTasks()))
		}
		s.Abort()
		if c.cancels[t] != nil {
			c.cancels[t]()
		}
		return errBudget
	}
	s.Yield(kernel.KindIO, label, true)
	if s.IsAborted() {
		if c.cancels[t] != nil {
			c.cancels[t]()
		}
		return errBudget
	}
	if verifhook.DeadlineFired(ctx) {
		// a deadline the code under test set itself passed while the call was
		// under way: a network client answers with the context's error
		return ctx.Err()
	}
	if c.fkind != nil && c.fkind[t] != faultNone && aimed(c.flabel[t], label, detail) {
		c.fcount[t]++
	}
	if c.fkind != nil && c.fkind[t] != faultNone && c.fcount[t] >= c.fat[t] && (c.fired[t] || aimed(c.flabel[t], label, detail)) {
		first := !c.fired[t]
		c.fired[t] = true
		s.SetNote(t, noteFired, 1)
		switch c.fkind[t] {
		case faultCancel:
			if first && c.cancels[t] != nil {
				c.cancels[t]()
			}
		case faultCancelCalls:
			if first && c.cancels[t] != nil {
				c.cancels[t]()
			}
			return context.Canceled
		case faultErrOnce:
			if first {
				return errInjected
			}
		case faultErrFrom:
			return errInjected
		case faultErrEvery:
			if !aimed(c.flabel[t], label, detail) {
				break // intermittent errors stay on the kind of call they are aimed at
			}
			if (c.fcount[t]-c.fat[t])%c.fperiod[t] == 0 {
				return errInjected
			}
		}
	}
	return nil
}

func (c *simClient) Version(ctx context.Context, vk resolve.VersionKey) (resolve.Version, error) {
	if err := c.enter(ctx, "Version"); err != nil {
		return resolve.Version{}, err
	}
	return c.inner.Version(ctx, vk)
}

func (c *simClient) Versions(ctx context.Context, pk resolve.PackageKey) ([]resolve.Version, error) {
	if err := c.enter(ctx, "Versions"); err != nil {
		return nil, err
	}
	return c.inner.Versions(ctx, pk)
}

func (c *simClient) Requirements(ctx context.Context, vk resolve.VersionKey) ([]resolve.RequirementVersion, error) {
	if err := c.enter(ctx, "Requirements"); err != nil {
		return nil, err
	}
	return c.inner.Requirements(ctx, vk)
}

func (c *simClient) MatchingVersions(ctx context.Context, vk resolve.VersionKey) ([]resolve.Version, error) {
	if err := c.enterCall(ctx, "MatchingVersions", vk.Version); err != nil {
		return nil, err
	}
	return c.inner.MatchingVersions(ctx, vk)
}

func sortedKeys(m map[string]int) []string {
	ks := make([]string, 0, len(m))
	for k := range m {
		ks = append(ks, k)
	}
	sort.Strings(ks)
	return ks
}

// drawSched draws the scheduler configuration for a concurrent phase.
func drawSched(t *kernel.Tape, targets []string) kernel.Config {
	cfg := kernel.Config{}
	// 0 would be serial; concurrent phases always interleave.
	cfg.Mode = 1 + t.Choose(kernel.NumModes-1)
	switch cfg.Mode {
	case kernel.ModeSticky:
		if t.Bool(1, 2) {
			cfg.StayNum, cfg.StayDen = 9, 10
		} else {
			cfg.StayNum, cfg.StayDen = 1, 2
		}
	case kernel.ModePCT:
		cfg.PCTDepth = 1 + t.Choose(4)
		cfg.PCTHorizon = 50 + 150*t.Choose(4)
	case kernel.ModeTargeted:
		cfg.Target = targets[t.Choose(len(targets))]
	}
	cfg.Latency = t.Choose(kernel.NumLat)
	return cfg
}

func modeName(m int) string {
	return [...]string{"serial", "sticky", "uniform", "round-robin", "pct", "targeted"}[m]
}

func latName(l int) string {
	return [...]string{"none", "uniform-1-50ms", "bimodal-1s-stragglers", "heavy-tail-100ms-100s-stragglers"}[l]
}
