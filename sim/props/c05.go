package props

import (
	"context"
	"errors"
	"fmt"
	"os"
	"reflect"
	"strings"
	"sync"
	"time"

	"deps.dev/util/resolve"
	"deps.dev/util/resolve/maven"
	"deps.dev/util/resolve/npm"
	"deps.dev/util/resolve/pypi"
	"deps.dev/util/resolve/version"
	"deps.dev/util/semver/verifhook"
	"verif/sim/gen"
	"verif/sim/kernel"
	"verif/sim/uni"
)

var sysNames = map[resolve.System]string{resolve.NPM: "npm", resolve.Maven: "maven", resolve.PyPI: "pypi"}
var sysDirs = map[resolve.System]string{resolve.NPM: "npm", resolve.Maven: "maven", resolve.PyPI: "pypi"}

func newResolver(sys resolve.System, c resolve.Client) resolve.Resolver {
	switch sys {
	case resolve.NPM:
		return npm.NewResolver(c)
	case resolve.Maven:
		return maven.NewResolver(c)
	default:
		return pypi.NewResolver(c)
	}
}

var (
	corpusOnce sync.Once
	corpus     map[resolve.System][]uni.CorpusEntry
	corpusErr  error
)

func loadCorpus(repo string) {
	corpusOnce.Do(func() {
		corpus = map[resolve.System][]uni.CorpusEntry{}
		for sys, dir := range sysDirs {
			es, err := uni.LoadCorpus(repo, sys, dir, 60)
			if err != nil {
				corpusErr = err
				return
			}
			corpus[sys] = es
		}
	})
}

// CorpusSizes reports how many testdata universes were loaded per system.
func CorpusSizes(repo string) map[string]int {
	loadCorpus(repo)
	out := map[string]int{}
	for sys, es := range corpus {
		out[sysNames[sys]] = len(es)
	}
	return out
}

// lruSize is the PyPI cache capacity handed to resolvers created while it is
// non-zero (the "cache squeeze" knob; the shipped constant is 10000).
var lruSize int

func init() {
	verifhook.LRUSize = func(def int) int {
		if lruSize > 0 {
			return lruSize
		}
		return def
	}
	verifhook.Block = func(point string) {
		if s := kernel.Cur(); s != nil {
			s.BlockBegin(point)
		}
	}
	verifhook.Unblock = func() {
		if s := kernel.Cur(); s != nil {
			s.BlockEnd()
		}
	}
	verifhook.Spawn = func() int {
		if s := kernel.Cur(); s != nil {
			return s.Spawn()
		}
		return -1
	}
	verifhook.Enter = func(h int) {
		if s := kernel.Cur(); s != nil {
			s.Enter(h)
		}
	}
	verifhook.Exit = func(h int, pv any) {
		if s := kernel.Cur(); s != nil {
			s.Exit(h, pv)
		} else if pv != nil {
			panic(pv)
		}
	}
	verifhook.Held = func(delta int) {
		if s := kernel.Cur(); s != nil {
			s.Held(delta)
		}
	}
	verifhook.CondW = func(key uintptr, point string) bool {
		if s := kernel.Cur(); s != nil {
			s.CondWait(key, point)
			return true
		}
		return false
	}
	verifhook.CondS = func(key uintptr, broadcast bool) {
		if s := kernel.Cur(); s != nil {
			s.CondSignal(key, broadcast)
		}
	}
	verifhook.SelB = func(point string, k int) {
		if s := kernel.Cur(); s != nil {
			s.SelBegin(point, k)
		}
	}
	verifhook.SelN = func(i, k int) int {
		if s := kernel.Cur(); s != nil {
			return s.SelNext(i, k)
		}
		return i
	}
	verifhook.Yield = func(point string) {
		if s := kernel.Cur(); s != nil {
			s.Yield(kernel.KindLock, point, true)
		}
	}
	// virtual time: every clock read, sleep, timer and context deadline of
	// the code under test goes through the simulator's clock
	verifhook.NowUs = kernel.VirtualNow
	verifhook.SleepUs = func(us int64, point string) bool {
		if s := kernel.Cur(); s != nil && s.Sleep(us, point) {
			return true
		}
		kernel.AdvanceClock(us) // outside a simulated phase time passes at once
		return true
	}
	verifhook.SpawnAt = func(us int64) int {
		if s := kernel.Cur(); s != nil {
			return s.SpawnTimer(us)
		}
		return -1
	}
	verifhook.Hasten = func(h int) {
		if s := kernel.Cur(); s != nil {
			s.Hasten(h)
		}
	}
	verifhook.Alone = func() bool {
		if s := kernel.Cur(); s != nil {
			return s.OnlyTimersLive() || s.IsAborted()
		}
		return true
	}
}

type c05Op struct {
	Root   uni.Ref `json:"root"`
	sig    string
	desc   string
	nodes  int
	gerr   bool
	nerr   int
	panicV any
	g      *resolve.Graph // kept to re-read the result after everything else ran
	err    error
	raw    string // Graph.String() as returned
	canon  string // Graph.String() after Graph.Canon(), plus Canon's error
	// aborted-operation fault: kind, where in the operation (sixteenths of the
	// number of client calls the reference resolution made), whether it fired,
	// and the operation's invoke/return stamps
	Fault      int
	FaultFrac  int
	FaultLabel int // aimed at calls of callKinds[FaultLabel]; 0: any call
	fired      bool
	start, end uint64
	// virtual time that passes before the operation starts (clock jump)
	Gap int64 `json:"gap_us,omitempty"`
}

func (op *c05Op) faultText(at int) string {
	if op.Fault == faultNone {
		return ""
	}
	what := "client call"
	if op.FaultLabel != 0 {
		what = callKinds[op.FaultLabel] + " call"
	}
	s := fmt.Sprintf(" [fault: %s at %s %d", faultNames[op.Fault], what, at)
	if op.Fault == faultErrEvery {
		s += fmt.Sprintf(", then every %d", 2+op.FaultFrac%3)
	}
	return s + "]"
}

// canonText canonicalises g in place, as a caller comparing graphs would, and
// returns its text before and after (with Canon's error, if any).
// endedByDeadline reports whether a resolution says of itself that it ran
// into a deadline.
func endedByDeadline(g *resolve.Graph, err error) bool {
	if err != nil && (errors.Is(err, context.DeadlineExceeded) || strings.Contains(err.Error(), context.DeadlineExceeded.Error())) {
		return true
	}
	return g != nil && strings.Contains(g.Error, context.DeadlineExceeded.Error())
}

func canonText(g *resolve.Graph) (raw, canon string) {
	if g == nil {
		return "", ""
	}
	raw = g.String()
	err := g.Canon()
	canon = g.String()
	if err != nil {
		canon += "\nCanon error: " + err.Error()
	}
	return raw, canon
}

type c05Scenario struct {
	System    string            `json:"system"`
	Source    string            `json:"source"`
	Universe  string            `json:"universe_schema_text"`
	Config    string            `json:"config"`
	Insertion string            `json:"insertion_order"`
	LRUSize   int               `json:"pypi_cache_capacity,omitempty"`
	Prelude   string            `json:"foreign_prelude,omitempty"`
	Epilogue  []string          `json:"epilogue_after_faults,omitempty"`
	Sched     string            `json:"scheduler,omitempty"`
	Programs  [][]string        `json:"task_programs"`
	Switches  []string          `json:"schedule_switches,omitempty"`
	Results   map[string]string `json:"results,omitempty"`
}

func resolveOnce(r resolve.Resolver, ctx context.Context, vk resolve.VersionKey) (g *resolve.Graph, err error, pv any) {
	defer func() {
		if x := recover(); x != nil {
			pv = x
		}
	}()
	g, err = r.Resolve(ctx, vk)
	return
}

func drawSpec(t *kernel.Tape, o Opts, sys resolve.System) (*uni.Spec, []uni.Ref, string) {
	loadCorpus(o.Repo)
	if es := corpus[sys]; len(es) > 0 && t.Bool(1, 4) {
		e := es[t.Choose(len(es))]
		if !t.Bool(1, 2) {
			return e.Spec, e.Roots, "testdata:" + e.Name
		}
		// Mutate a deep copy of the testdata universe: drop a version, retarget
		// or reorder requirements. Roots that disappear are dropped too.
		sp := cloneSpec(e.Spec)
		isRoot := map[uni.Ref]bool{}
		for _, r := range e.Roots {
			isRoot[r] = true
		}
		note := ""
		for m, n := 0, t.Range(1, 3); m < n; m++ {
			pi := t.Choose(len(sp.Pkgs))
			if len(sp.Pkgs[pi].Vers) == 0 {
				continue
			}
			vi := t.Choose(len(sp.Pkgs[pi].Vers))
			v := &sp.Pkgs[pi].Vers[vi]
			switch t.Choose(4) {
			case 0:
				if !isRoot[uni.Ref{P: pi, V: vi}] && vi == len(sp.Pkgs[pi].Vers)-1 {
					sp.Pkgs[pi].Vers = sp.Pkgs[pi].Vers[:vi]
					note += " drop-version"
				}
			case 1:
				if len(v.Reqs) > 0 {
					ri := t.Choose(len(v.Reqs))
					tp := t.Choose(len(sp.Pkgs))
					if len(sp.Pkgs[tp].Vers) > 0 && !strings.Contains(sp.Pkgs[tp].Name, ">") {
						v.Reqs[ri].Name = sp.Pkgs[tp].Name
						note += " retarget-requirement"
					}
				}
			case 2:
				if len(v.Reqs) > 1 {
					a, b := t.Choose(len(v.Reqs)), t.Choose(len(v.Reqs))
					v.Reqs[a], v.Reqs[b] = v.Reqs[b], v.Reqs[a]
					note += " swap-requirements"
				}
			default:
				if len(v.Reqs) > 0 {
					r := v.Reqs[t.Choose(len(v.Reqs))]
					v.Reqs = append(v.Reqs, r)
					note += " duplicate-requirement"
				}
			}
		}
		return sp, e.Roots, "testdata:" + e.Name + " mutated:" + note
	}
	k := gen.Knobs{MaxPkgs: o.MaxPkgs, MaxVers: 5, MaxReqs: 4}
	var s *uni.Spec
	switch sys {
	case resolve.NPM:
		s = gen.NPM(t, k)
	case resolve.Maven:
		s = gen.Maven(t, k)
	default:
		s = gen.PyPI(t, k)
	}
	// Roots: biased to the first packages (the top of the mostly-DAG order).
	var roots []uni.Ref
	for pi, p := range s.Pkgs {
		if strings.Contains(p.Name, ">") {
			continue // bundled packages are not resolved as roots
		}
		for vi := range p.Vers {
			if pi < 3 {
				roots = append(roots, uni.Ref{P: pi, V: vi})
			}
		}
	}
	if len(roots) == 0 {
		roots = s.Refs()
	}
	return s, roots, "generated"
}

// RunC05 runs one simulated scenario for C05.
func RunC05(t *kernel.Tape, o Opts) *Result {
	res := &Result{Prop: "C05", Status: "ok"}
	serialStalled = false
	defer func() {
		if serialStalled {
			res.Status, res.Violations = "stalled", nil
		}
	}()
	sys := []resolve.System{resolve.NPM, resolve.Maven, resolve.PyPI}[t.Choose(3)]
	sname := sysNames[sys]
	spec, roots, source := drawSpec(t, o, sys)
	concurrent := t.Bool(1, 2)
	{
		// A universe is a set of distinct version keys; anything else is a
		// generator error, never a finding.
		seen := map[resolve.VersionKey]bool{}
		for _, r := range spec.Refs() {
			k := spec.VK(r.P, r.V)
			if seen[k] {
				res.Status = "generator-error"
				res.Config = sname + "/duplicate-version-key"
				return res
			}
			seen[k] = true
		}
	}

	// Knobs.
	order := spec.Refs()
	permuted := false
	if t.Bool(1, 2) {
		p := gen.Perm(t, len(order))
		no := make([]uni.Ref, len(order))
		for i, j := range p {
			no[i] = order[j]
			if i != j {
				permuted = true
			}
		}
		order = no
	}
	squeeze := 0
	if sys == resolve.PyPI && t.Bool(1, 2) {
		squeeze = []int{1, 2, 3, 8}[t.Choose(4)]
	}
	// Staged build: the live client does not receive the universe in one go.
	// A first part is added (some versions in a preliminary form: another
	// attribute set, one requirement fewer), a few resolutions run on the
	// client as it is then, and only afterwards the rest is added and the
	// preliminary versions are added again in their final form. From then on
	// the client holds exactly the universe (it reports what was last added),
	// and every resolver used in the run proper is created after that point.
	type stagedAdd struct {
		ref    uni.Ref
		prelim bool
	}
	var stage1 []stagedAdd
	var interim []uni.Ref
	if t.Bool(1, 5) {
		k := t.Range(1, len(order))
		for _, r := range order[:k] {
			stage1 = append(stage1, stagedAdd{r, t.Bool(1, 3)})
		}
		for i, n := 0, t.Range(1, 2); i < n; i++ {
			interim = append(interim, order[t.Choose(k)])
		}
	}
	var preludeSys resolve.System
	prelude := t.Bool(1, 6)
	var preludeSpec *uni.Spec
	if prelude {
		preludeSys = []resolve.System{resolve.NPM, resolve.Maven, resolve.PyPI}[(int(t.Choose(2))+1+indexOfSys(sys))%3]
		k := gen.Knobs{MaxPkgs: 4, MaxVers: 3, MaxReqs: 3}
		switch preludeSys {
		case resolve.NPM:
			preludeSpec = gen.NPM(t, k)
		case resolve.Maven:
			preludeSpec = gen.Maven(t, k)
		default:
			preludeSpec = gen.PyPI(t, k)
		}
	}

	// Programs.
	var programs [][]*c05Op
	if !concurrent {
		n := t.Range(2, o.MaxOps)
		var ops []*c05Op
		for i := 0; i < n; i++ {
			ops = append(ops, &c05Op{Root: roots[t.Choose(len(roots))]})
		}
		programs = [][]*c05Op{ops}
	} else {
		nt := t.Range(2, o.MaxTasks)
		// roots biased to overlap: a small pool
		pool := []uni.Ref{roots[t.Choose(len(roots))]}
		if t.Bool(1, 2) {
			pool = append(pool, roots[t.Choose(len(roots))])
		}
		for i := 0; i < nt; i++ {
			n := t.Range(1, 3)
			var ops []*c05Op
			for j := 0; j < n; j++ {
				r := pool[t.Choose(len(pool))]
				if t.Bool(1, 6) {
					r = roots[t.Choose(len(roots))]
				}
				ops = append(ops, &c05Op{Root: r})
			}
			programs = append(programs, ops)
		}
	}
	histPrefix := 0
	var prefixOps []*c05Op
	if concurrent && t.Bool(1, 4) {
		histPrefix = t.Range(1, 3)
		for i := 0; i < histPrefix; i++ {
			prefixOps = append(prefixOps, &c05Op{Root: roots[t.Choose(len(roots))]})
		}
	}
	// Aborted operations (a third of the runs): some operations have their
	// context cancelled, or see their client calls fail, somewhere in the
	// middle. What such an operation returns is not judged; every operation
	// that runs afterwards on the same client and resolver is ("what other
	// resolutions were run earlier" includes resolutions that did not finish).
	faulty := t.Bool(1, 3)
	if os.Getenv("VERIF_NO_ABORT_FAULTS") != "" {
		faulty = false // sensitivity experiments only: what would be seen without this fault family
	}
	var epilogue []*c05Op
	var epilogueTask []int
	if faulty {
		drawFault := func(op *c05Op) {
			if t.Bool(1, 2) {
				op.Fault = 1 + t.Choose(numFaultKinds-1)
				op.FaultFrac = t.Choose(16)
				if t.Bool(1, 2) {
					op.FaultLabel = 1 + t.Choose(len(callKinds)-1)
				}
			}
		}
		for _, op := range prefixOps {
			drawFault(op)
		}
		for ti, ops := range programs {
			for j, op := range ops {
				if !concurrent && j == len(ops)-1 {
					break // a history ends with a clean operation
				}
				drawFault(op)
				if op.Fault != faultNone && j+1 < len(ops) && t.Bool(1, 2) {
					ops[j+1].Root = op.Root // come back to the packages the aborted operation touched
				}
				if concurrent && op.Fault != faultNone && len(epilogue) < 2 && (len(epilogueTask) == 0 || epilogueTask[len(epilogueTask)-1] != ti) {
					// once the faults have stopped: a clean resolution on the
					// resolver that ran the aborted one
					r := op.Root
					if t.Bool(1, 2) {
						r = roots[t.Choose(len(roots))]
					}
					epilogue = append(epilogue, &c05Op{Root: r})
					epilogueTask = append(epilogueTask, ti)
				}
			}
		}
	}
	var cfg kernel.Config
	if concurrent {
		cfg = drawSched(t, []string{"MatchingVersions", "Requirements", "Versions", "Version", "op"})
	}
	// Time. In a third of the histories client calls take (virtual) time as
	// they do in the concurrent runs, and in a third of all runs the clock
	// jumps between operations (a millisecond ... a month): a resolver that
	// reads the clock, sets deadlines or lets entries expire meets slow
	// calls and long pauses. References always run with a fast client.
	if !concurrent && t.Bool(1, 3) {
		cfg.Latency = 1 + t.Choose(kernel.NumLat-1)
	}
	if t.Bool(1, 3) {
		for _, ops := range programs {
			for _, op := range ops {
				if t.Bool(1, 2) {
					op.Gap = [...]int64{1e3, 1e6, 60e6, 3600e6, 30 * 86400e6}[t.Choose(5)]
				}
			}
		}
	}
	// npm and Maven tasks normally share one resolver; in a quarter of the
	// concurrent runs they are spread over two resolvers on the one client
	// (what is shared then is the client and the process).
	var resolverOf []int
	if concurrent && sys != resolve.PyPI && t.Bool(1, 4) {
		for range programs {
			resolverOf = append(resolverOf, t.Choose(2))
		}
	}
	// Foreign concurrent tasks: resolutions in another system's universe, on
	// their own client and resolvers, running concurrently with the main
	// tasks. They share nothing with them except the process: package-level
	// state touched by both shows up in the race oracle.
	var fSpec *uni.Spec
	var fSys resolve.System
	var fProgs [][]*c05Op
	if concurrent && t.Bool(1, 4) {
		fSys = []resolve.System{resolve.NPM, resolve.Maven, resolve.PyPI}[(t.Choose(3))]
		k := gen.Knobs{MaxPkgs: 4, MaxVers: 3, MaxReqs: 3}
		switch fSys {
		case resolve.NPM:
			fSpec = gen.NPM(t, k)
		case resolve.Maven:
			fSpec = gen.Maven(t, k)
		default:
			fSpec = gen.PyPI(t, k)
		}
		var fr []uni.Ref
		for pi, p := range fSpec.Pkgs {
			if pi < 2 && !strings.Contains(p.Name, ">") {
				for vi := range p.Vers {
					fr = append(fr, uni.Ref{P: pi, V: vi})
				}
			}
		}
		for i, n := 0, t.Range(1, 2); i < n && len(fr) > 0; i++ {
			var ops []*c05Op
			for j, m := 0, t.Range(1, 2); j < m; j++ {
				ops = append(ops, &c05Op{Root: fr[t.Choose(len(fr))]})
			}
			fProgs = append(fProgs, ops)
		}
	}

	ctx := context.Background()
	// Golden observational dump and the references, from twins never used for
	// anything else.
	golden := spec.Dump(spec.BuildClient(nil))
	refs := map[uni.Ref]string{}
	refDesc := map[uni.Ref]string{}
	allRoots := map[uni.Ref]bool{}
	for _, ops := range programs {
		for _, op := range ops {
			allRoots[op.Root] = true
		}
	}
	for _, op := range prefixOps {
		allRoots[op.Root] = true
	}
	for _, op := range epilogue {
		allRoots[op.Root] = true
	}
	refCalls := map[uni.Ref][len(callKinds)]int{}
	refRaw := map[uni.Ref]string{}
	refCanon := map[uni.Ref]string{}
	computeRefs := func() (map[uni.Ref]string, map[uni.Ref]string, bool) {
		m := map[uni.Ref]string{}
		d := map[uni.Ref]string{}
		for _, r := range spec.Refs() {
			if !allRoots[r] {
				continue
			}
			bc := &boundedClient{inner: spec.BuildClient(nil), max: 4000}
			g, err, pv := serialResolve(t, newResolver(sys, bc), ctx, spec.VK(r.P, r.V))
			if bc.over {
				return nil, nil, false
			}
			refCalls[r] = bc.byKind
			if pv != nil {
				m[r] = fmt.Sprintf("PANIC:%v", pv)
				d[r] = m[r]
				continue
			}
			m[r] = uni.Signature(g, err)
			d[r] = uni.Describe(g, err)
			if _, ok := refRaw[r]; !ok {
				refRaw[r], refCanon[r] = canonText(g)
			}
		}
		return m, d, true
	}
	var ok bool
	refs, refDesc, ok = computeRefs()
	if !ok {
		res.Status = "budget"
		res.Config = sname + "/ref-budget"
		return res
	}

	// Foreign prelude: resolutions in another system's universe on unrelated
	// objects; can matter only through process-global state.
	if prelude {
		pc := preludeSpec.BuildClient(nil)
		pr := newResolver(preludeSys, &boundedClient{inner: pc, max: 3000})
		for i, r := range preludeSpec.Refs() {
			if i >= 3 {
				break
			}
			serialResolve(t, pr, ctx, preludeSpec.VK(r.P, r.V))
		}
		fault(res, "foreign_prelude", 1)
	}

	// Live objects.
	var live, untouched *resolve.LocalClient
	if stage1 == nil {
		live = spec.BuildClient(order)
		untouched = spec.BuildClient(order)
	} else {
		add := func(c *resolve.LocalClient, r uni.Ref, prelim bool) {
			v := spec.Pkgs[r.P].Vers[r.V]
			attrs, reqs := v.Attrs, v.Reqs
			if prelim {
				hasBlocked := false
				for _, a := range attrs {
					hasBlocked = hasBlocked || a.K == int(version.Blocked)
				}
				if hasBlocked {
					attrs = nil
				} else {
					attrs = append(append([]uni.KV(nil), attrs...), uni.KV{K: int(version.Blocked)})
				}
				if len(reqs) > 0 {
					reqs = reqs[:len(reqs)-1]
				}
			}
			c.AddVersion(resolve.Version{VersionKey: spec.VK(r.P, r.V), AttrSet: uni.MkAttr(attrs)}, spec.MkReqs(reqs))
		}
		build := func(withResolves bool) (*resolve.LocalClient, bool) {
			c := resolve.NewLocalClient()
			for _, a := range stage1 {
				add(c, a.ref, a.prelim)
			}
			if withResolves {
				for _, r := range interim {
					bc := &boundedClient{inner: c, max: 3000}
					serialResolve(t, newResolver(sys, bc), ctx, spec.VK(r.P, r.V))
					if bc.over {
						return nil, false
					}
				}
			}
			for _, a := range stage1 {
				if a.prelim {
					add(c, a.ref, false)
				}
			}
			for _, r := range order[len(stage1):] {
				add(c, r, false)
			}
			return c, true
		}
		var okb bool
		if live, okb = build(true); !okb {
			res.Status = "budget"
			res.Config = sname + "/staged-budget"
			return res
		}
		untouched, _ = build(false)
		fault(res, "staged_build", 1)
	}
	if d := spec.Dump(live); d != golden {
		kind := "insertion-order"
		what := "client built in permuted insertion order"
		if stage1 != nil {
			kind = "staged-build"
			what = "client built in two stages (preliminary forms re-added in final form, resolutions in between)"
		}
		violate(res, kind, kind+":"+sname, 0, "%s reports differently before any Resolve of the run proper: %s", what, uni.FirstDiff(golden, d))
	}
	if permuted {
		fault(res, "insertion_permutation", 1)
	}
	ntasks := len(programs)
	sc := &simClient{inner: live, calls: make([]int, kernel.MaxTasks), cancels: make([]context.CancelFunc, kernel.MaxTasks), maxCall: 5000}
	if faulty {
		sc.enableFaults()
	}
	faultAt := func(op *c05Op) int { return 1 + op.FaultFrac*refCalls[op.Root][op.FaultLabel]/16 }
	var fLive *resolve.LocalClient
	var fClient *simClient
	var fGolden string
	fRefs := map[uni.Ref]string{}
	if len(fProgs) > 0 {
		fGolden = fSpec.Dump(fSpec.BuildClient(nil))
		for _, ops := range fProgs {
			for _, op := range ops {
				if _, ok := fRefs[op.Root]; ok {
					continue
				}
				bc := &boundedClient{inner: fSpec.BuildClient(nil), max: 3000}
				g, err, pv := serialResolve(t, newResolver(fSys, bc), ctx, fSpec.VK(op.Root.P, op.Root.V))
				if bc.over {
					res.Status = "budget"
					res.Config = sname + "/ref-budget"
					return res
				}
				if pv != nil {
					fRefs[op.Root] = fmt.Sprintf("PANIC:%v", pv)
				} else {
					fRefs[op.Root] = uni.Signature(g, err)
				}
			}
		}
		fLive = fSpec.BuildClient(nil)
		fClient = &simClient{inner: fLive, calls: sc.calls, cancels: sc.cancels, maxCall: 5000}
		fault(res, "foreign_concurrent_tasks", len(fProgs))
	}
	lruSize = squeeze
	var shared resolve.Resolver
	perTask := make([]resolve.Resolver, ntasks)
	if sys == resolve.PyPI && concurrent {
		for i := range perTask {
			perTask[i] = newResolver(sys, sc)
		}
	} else {
		shared = newResolver(sys, sc)
		second := shared
		if resolverOf != nil {
			second = newResolver(sys, sc)
			fault(res, "two_resolvers_one_client", 1)
		}
		for i := range perTask {
			perTask[i] = shared
			if resolverOf != nil && resolverOf[i] == 1 {
				perTask[i] = second
			}
		}
	}
	lruSize = 0
	if squeeze > 0 && len(spec.AllReqKeys()) > squeeze {
		fault(res, "cache_squeeze", 1)
	}

	checkClient := func(step int, when string) {
		if f := clientDataDiff(live, untouched); f != "" {
			violate(res, "client-mutated", "client-mutated:"+sname+":deep", step, "%s: the LocalClient's stored data (field %s) differs from an identically built, untouched twin (reflect.DeepEqual)", when, f)
		}
		if d := spec.Dump(live); d != golden {
			fd := uni.FirstDiff(golden, d)
			what := "other"
			for _, w := range []string{"Versions", "Version", "Requirements", "Matching"} {
				if strings.Contains(fd, "\""+w+"(") {
					what = w
					break
				}
			}
			violate(res, "client-mutated", "client-mutated:"+sname+":"+what, step, "%s: the client reports differently than before: %s", when, fd)
		}
	}
	var judged []*c05Op // every operation of the run, for the overlap rule
	judge := func(op *c05Op, step int, who string) {
		root := spec.VK(op.Root.P, op.Root.V)
		if op.fired {
			// an aborted operation: whatever it returned is its own business
			switch {
			case op.panicV != nil:
				probe(res, "aborted_op_panicked", 1)
			case op.err != nil:
				probe(res, "aborted_op_returned_error", 1)
			default:
				probe(res, "aborted_op_returned_graph", 1)
			}
			fault(res, "op_"+faultNames[op.Fault], 1)
			return
		}
		afterFault := false
		for _, x := range judged {
			if !x.fired || x == op {
				continue
			}
			if x.end < op.start {
				afterFault = true
			} else if x.start < op.end && x.Fault >= faultErrOnce {
				// the client was failing calls while this operation ran:
				// the universe was not fixed for it
				probe(res, "clean_op_overlapping_client_errors", 1)
				return
			}
		}
		if afterFault {
			probe(res, "clean_ops_judged_after_an_aborted_op", 1)
		}
		if kernel.TimersStarted() > 0 && endedByDeadline(op.g, op.err) {
			// the code under test set itself a deadline and says so: like an
			// aborted operation, what it returns is its own business (a graph
			// that silently differs is not)
			probe(res, "ops_ended_by_a_deadline_of_the_code_under_test", 1)
			return
		}
		if op.panicV != nil {
			violate(res, "panic", "panic:"+sname, step, "%s Resolve(%s %s) panicked: %v", who, root.Name, root.Version, op.panicV)
			return
		}
		if op.sig != refs[op.Root] {
			violate(res, "result-mismatch", "result-mismatch:"+sname, step, "%s Resolve(%s %s) differs from the serial result on a fresh client.\n--- fresh:\n%s\n--- got:\n%s", who, root.Name, root.Version, refDesc[op.Root], op.desc)
		} else if op.raw != refRaw[op.Root] {
			probe(res, "same_graph_other_node_order", 1)
		} else if probe(res, "canon_compared", 1); op.canon != refCanon[op.Root] {
			// "the same graph after canonicalisation": Canon was given
			// literally the same graph as in the reference run and produced
			// something else, so it depends on more than its input.
			violate(res, "canon-unstable", "canon-unstable:"+sname, step, "%s Resolve(%s %s) returned literally the graph of the serial reference run, but Graph.Canon turned it into something else.\n--- reference, canonicalised:\n%s\n--- here, canonicalised:\n%s", who, root.Name, root.Version, refCanon[op.Root], op.canon)
		}
		if op.nodes >= 2 {
			probe(res, "graphs_ge2_nodes", 1)
		}
		if op.gerr {
			probe(res, "graph_error", 1)
			if strings.Contains(op.desc, "multi-registry") {
				probe(res, "maven_multi_registry_differs", 1)
			}
		}
		probe(res, "node_errors", op.nerr)
	}
	phase := uint64(0)
	runOp := func(r resolve.Resolver, slot int, op *c05Op) {
		// every operation has a context of its own (a fault may cancel it)
		octx, cancel := context.WithCancel(context.Background())
		defer cancel()
		sc.cancels[slot] = cancel
		sc.calls[slot] = 0
		sc.plan(slot, op.Fault, op.FaultLabel, faultAt(op), 2+op.FaultFrac%3)
		op.start = phase<<32 | sc.sched().Stamp()
		g, err, pv := resolveOnce(r, octx, spec.VK(op.Root.P, op.Root.V))
		if sc.fired != nil {
			op.fired = sc.fired[slot]
		}
		sc.plan(slot, faultNone, 0, 0, 1)
		op.end = phase<<32 | sc.sched().Stamp()
		op.panicV = pv
		if pv == nil {
			op.g, op.err = g, err
			op.sig = uni.Signature(g, err)
			op.desc = uni.Describe(g, err)
			op.raw, op.canon = canonText(g)
			if g != nil {
				op.nodes = len(g.Nodes)
				op.gerr = g.Error != ""
				for _, n := range g.Nodes {
					op.nerr += len(n.Errors)
				}
			}
		}
	}

	// History prefix (serial, before the fork) on the live objects.
	if len(prefixOps) > 0 {
		ps := kernel.NewSched(t, kernel.Config{Mode: kernel.ModeSerial})
		sc.setSched(ps)
		okRun := ps.Run([]func(*kernel.Task){func(*kernel.Task) {
			for _, op := range prefixOps {
				runOp(perTask[0], 0, op)
			}
		}})
		if !okRun {
			res.Status = "stalled"
			return res
		}
		if ps.Aborted {
			res.Status = "budget"
			return res
		}
		judged = append(judged, prefixOps...)
		for i, op := range prefixOps {
			judge(op, i, "history-prefix")
		}
		fault(res, "history_prefix_ops", len(prefixOps))
		res.Yields += ps.Yields
	}

	// Main phase.
	s := kernel.NewSched(t, cfg)
	sc.setSched(s)
	phase = 1
	for _, ops := range programs {
		judged = append(judged, ops...)
	}
	fns := make([]func(*kernel.Task), ntasks)
	for i := range programs {
		i := i
		fns[i] = func(*kernel.Task) {
			for j, op := range programs[i] {
				if op.Gap > 0 {
					s.Sleep(op.Gap, "clock-jump")
				}
				s.Yield(kernel.KindOp, "op-start", false)
				s.SetNote(i, noteOp, int64(j+1))
				s.SetNote(i, noteFired, 0)
				runOp(perTask[i], i, op)
				s.Yield(kernel.KindOp, "op-end", false)
				if !concurrent && !s.IsAborted() {
					judge(op, j, "history")
					checkClient(j, fmt.Sprintf("after operation %d", j))
				}
			}
		}
	}
	for fi := range fProgs {
		fi := fi
		idx := ntasks + fi
		tctx, cancel := context.WithCancel(context.Background())
		sc.cancels[idx] = cancel
		fres := newResolver(fSys, fClient)
		fns = append(fns, func(*kernel.Task) {
			for _, op := range fProgs[fi] {
				sc.calls[idx] = 0
				s.Yield(kernel.KindOp, "op-start", false)
				g, err, pv := resolveOnce(fres, tctx, fSpec.VK(op.Root.P, op.Root.V))
				op.panicV = pv
				if pv == nil {
					op.sig = uni.Signature(g, err)
					op.desc = uni.Describe(g, err)
				}
				s.Yield(kernel.KindOp, "op-end", false)
			}
		})
	}
	if fClient != nil {
		fClient.setSched(s)
	}
	okRun := s.Run(fns)
	if !okRun && s.Deadlock && s.CallersDone(len(fns)) {
		// Every caller has returned; what is blocked for good are goroutines
		// the code under test started and left behind. That is no violation
		// of this property by itself, and the run is judged as usual.
		s.JoinCallers(len(fns))
		ids, _ := s.BlockedTasks()
		probe(res, "goroutines_left_blocked_for_good", len(ids))
		probe(res, "runs_judged_with_goroutines_left_behind", 1)
		okRun = true
	}
	if okRun {
		for _, c := range sc.cancels {
			if c != nil {
				c()
			}
		}
	}
	res.Yields += s.Yields
	res.Switches = s.SwitchCount
	res.SimTimeUs = s.Now()
	res.SchedHash = fmt.Sprintf("%016x", s.Hash)
	if !okRun {
		res.Status = "stalled"
		if s.Deadlock {
			res.Config = sname + "/deadlock"
			// the tasks did not join: only kernel notes and what was fixed
			// before the fork may be read here
			if hang(res, s, ntasks, func(task int) bool { return s.Note(task, noteFired) != 0 }, func(task int) string {
				if j := int(s.Note(task, noteOp)); j > 0 && j <= len(programs[task]) {
					vk := spec.VK(programs[task][j-1].Root.P, programs[task][j-1].Root.V)
					return fmt.Sprintf("task %d: Resolve(%s %s)", task, vk.Name, vk.Version)
				}
				return fmt.Sprintf("task %d", task)
			}, "hang:"+sname) {
				res.Status = "hang"
			}
		}
		return res
	}
	if s.Foreign {
		res.Status = "foreign"
		return res
	}
	if s.Aborted || t.Over {
		res.Status = "budget"
		res.Violations = nil
		// The budget of a run is a cap on the client calls of one operation
		// (and on the yields of the run). An undisturbed operation that
		// reaches the cap although the serial reference for the same root
		// needed less than a hundredth of it is not on its way to the same
		// graph: it does not terminate (counted in calls, not in real time).
		for i := 0; i < ntasks && !t.Over; i++ {
			j := int(s.Note(i, noteOp))
			// Only when no other task was alive any more: under the unfair
			// schedules drawn here (priorities, sticky) an operation that
			// waits for another one by polling may starve the one it waits
			// for, which a real scheduler would not do.
			if s.Note(i, noteCap) != 1 || s.Note(i, noteFired) != 0 || j < 1 || j > len(programs[i]) {
				continue
			}
			op := programs[i][j-1]
			if n := refCalls[op.Root][0]; n*livelockFactor <= sc.maxCall {
				vk := spec.VK(op.Root.P, op.Root.V)
				res.Status = "ok"
				res.Config = sname + "/livelock"
				violate(res, "livelock", "livelock:"+sname, 0, "task %d: Resolve(%s %s) made more than %d client calls without returning; the serial resolution of the same root on a fresh client needs %d", i, vk.Name, vk.Version, sc.maxCall, n)
			}
		}
		return res
	}
	// Once the faults have stopped: clean resolutions, one after the other, on
	// the resolvers that ran aborted operations.
	if len(epilogue) > 0 {
		es := kernel.NewSched(t, kernel.Config{Mode: kernel.ModeSerial})
		sc.setSched(es)
		phase = 2
		okE := es.Run([]func(*kernel.Task){func(*kernel.Task) {
			for k, op := range epilogue {
				es.SetNote(0, noteOp, int64(k+1))
				runOp(perTask[epilogueTask[k]], 0, op)
			}
		}})
		if !okE {
			res.Status = "stalled"
			return res
		}
		if es.Aborted {
			res.Status = "budget"
			res.Violations = nil
			if k := int(es.Note(0, noteOp)); es.Note(0, noteCap) == 1 && k >= 1 && k <= len(epilogue) && !t.Over {
				op := epilogue[k-1]
				if n := refCalls[op.Root][0]; n*livelockFactor <= sc.maxCall {
					vk := spec.VK(op.Root.P, op.Root.V)
					res.Status = "ok"
					res.Config = sname + "/livelock"
					violate(res, "livelock", "livelock:"+sname, 0, "after the faults stopped, Resolve(%s %s) on the resolver of task %d made more than %d client calls without returning; the serial resolution of the same root on a fresh client needs %d", vk.Name, vk.Version, epilogueTask[k-1], sc.maxCall, n)
				}
			}
			return res
		}
		res.Yields += es.Yields
		sc.setSched(s)
	}
	for _, ops := range programs {
		for _, op := range ops {
			if op.Gap > 0 {
				fault(res, "clock_jumps_between_operations", 1)
			}
		}
	}
	probe(res, "virtual_timers_of_code_under_test", s.Timers)
	probe(res, "virtual_sleeps_of_code_under_test", s.Sleeps)
	fault(res, "reordered_completions", s.Reorders)
	fault(res, "client_call_preemptions", s.MidOpSwitch)
	fault(res, "lock_point_preemptions", s.LockPreempt)
	if !concurrent {
		fault(res, "history_ops", len(programs[0]))
	}
	probe(res, "goroutines_of_code_under_test", s.Spawned)
	probe(res, "resumed_after_all_tasks_blocked", s.Resumed)
	probe(res, "blocking_operations", s.BlockOps)
	probe(res, "selects_with_drawn_case_order", s.Selects)
	for i := 0; i < s.N(); i++ {
		if pv := s.TaskPanic(i); pv != nil {
			violate(res, "panic", "panic:harness-task", 0, "task %d panicked outside an operation: %v", i, pv)
		}
	}
	if concurrent {
		for i, ops := range programs {
			for j, op := range ops {
				judge(op, j, fmt.Sprintf("task %d", i))
			}
		}
		judged = append(judged, epilogue...)
		for k, op := range epilogue {
			judge(op, k, fmt.Sprintf("after the faults stopped, on the resolver of task %d,", epilogueTask[k]))
		}
		checkClient(s.Yields, "at quiescence after the concurrent phase")
		fname := sysNames[fSys]
		for i, ops := range fProgs {
			for j, op := range ops {
				vk := fSpec.VK(op.Root.P, op.Root.V)
				if op.panicV != nil {
					violate(res, "panic", "panic:"+fname, j, "foreign task %d Resolve(%s %s) panicked: %v", i, vk.Name, vk.Version, op.panicV)
				} else if op.sig != fRefs[op.Root] {
					violate(res, "result-mismatch", "result-mismatch:"+fname, j, "foreign task %d (own %s universe, client and resolver) Resolve(%s %s) differs from the serial result on a fresh client:\n%s", i, fname, vk.Name, vk.Version, op.desc)
				}
			}
		}
		if fLive != nil {
			if d := fSpec.Dump(fLive); d != fGolden {
				violate(res, "client-mutated", "client-mutated:"+fname+":foreign", s.Yields, "the foreign tasks' client reports differently than before: %s", uni.FirstDiff(fGolden, d))
			}
		}
	}
	// A graph handed to a caller is the caller's: it must read the same after
	// all later resolutions as it did when it was returned (a result that
	// shares memory with resolver state would change under its holder).
	{
		all := append(append([][]*c05Op{prefixOps}, programs...), epilogue)
		for ti, ops := range all {
			for j, op := range ops {
				if op.panicV != nil || (op.g == nil && op.err == nil) {
					continue
				}
				if now := uni.Signature(op.g, op.err); now != op.sig {
					vk := spec.VK(op.Root.P, op.Root.V)
					violate(res, "result-unstable", "result-unstable:"+sname, j, "the graph returned by Resolve(%s %s) (program %d, operation %d) reads differently after the later resolutions than when it was returned.\n--- when returned:\n%s\n--- now:\n%s", vk.Name, vk.Version, ti, j, op.desc, uni.Describe(op.g, op.err))
				}
			}
		}
	}
	// Reference again, after everything: must agree with the first.
	refs2, _, ok2 := computeRefs()
	if ok2 {
		for r, sg := range refs {
			if refs2[r] != sg {
				vk := spec.VK(r.P, r.V)
				violate(res, "ref-unstable", "ref-unstable:"+sname, s.Yields, "Resolve(%s %s) on a fresh client/resolver gives a different graph after the run than before it (process-global state)", vk.Name, vk.Version)
			}
		}
	}
	res.RaceSteps = s.Races()

	mode := "history"
	if concurrent {
		mode = "concurrent"
	}
	res.Config = sname + "/" + mode
	big := false
	for _, ops := range programs {
		for _, op := range ops {
			if op.nodes >= 2 {
				big = true
			}
		}
	}
	res.NonTrivial = big && (!concurrent || s.MidOpSwitch > 0)
	var prog []string
	for _, ops := range programs {
		for _, op := range ops {
			prog = append(prog, fmt.Sprintf("%d.%d", op.Root.P, op.Root.V))
		}
		prog = append(prog, "|")
	}
	res.Distinct = hashStrings(spec.SchemaText(), strings.Join(prog, ","), res.SchedHash, fmt.Sprint(order), fmt.Sprint(squeeze))
	{
		var obs []string
		for _, op := range prefixOps {
			obs = append(obs, op.sig)
		}
		for _, ops := range programs {
			for _, op := range ops {
				obs = append(obs, op.sig)
			}
		}
		for _, op := range epilogue {
			obs = append(obs, op.sig)
		}
		for _, r := range spec.Refs() {
			if sg, ok := refs[r]; ok {
				obs = append(obs, sg)
			}
		}
		obs = append(obs, spec.Dump(live))
		res.Digest = hashStrings(obs...)
	}

	if len(res.Violations) > 0 || len(res.RaceSteps) > 0 || o.WantDetail {
		scn := &c05Scenario{System: sname, Source: source, Universe: spec.SchemaText(), Config: mode, LRUSize: squeeze, Results: map[string]string{}}
		scn.Insertion = "definition order"
		if permuted {
			var oo []string
			for _, r := range order {
				oo = append(oo, spec.Pkgs[r.P].Name+"@"+spec.Pkgs[r.P].Vers[r.V].V)
			}
			scn.Insertion = strings.Join(oo, ", ")
		}
		if prelude {
			scn.Prelude = sysNames[preludeSys] + ":\n" + preludeSpec.SchemaText()
		}
		if len(fProgs) > 0 {
			scn.Prelude += fmt.Sprintf("\n[%d foreign concurrent task(s) in this %s universe]\n%s", len(fProgs), sysNames[fSys], fSpec.SchemaText())
		}
		if concurrent {
			scn.Sched = fmt.Sprintf("mode=%s latency=%s target=%q", modeName(cfg.Mode), latName(cfg.Latency), cfg.Target)
		}
		if len(prefixOps) > 0 {
			var p []string
			for _, op := range prefixOps {
				vk := spec.VK(op.Root.P, op.Root.V)
				p = append(p, "prefix: Resolve "+vk.Name+" "+vk.Version+op.faultText(faultAt(op)))
			}
			scn.Programs = append(scn.Programs, p)
		}
		for _, ops := range programs {
			var p []string
			for _, op := range ops {
				vk := spec.VK(op.Root.P, op.Root.V)
				gap := ""
				if op.Gap > 0 {
					gap = fmt.Sprintf("[clock +%v] ", time.Duration(op.Gap)*time.Microsecond)
				}
				p = append(p, gap+"Resolve "+vk.Name+" "+vk.Version+op.faultText(faultAt(op)))
				scn.Results[vk.Name+" "+vk.Version] = op.sig
			}
			scn.Programs = append(scn.Programs, p)
		}
		for k, op := range epilogue {
			vk := spec.VK(op.Root.P, op.Root.V)
			scn.Epilogue = append(scn.Epilogue, fmt.Sprintf("resolver of task %d: Resolve %s %s", epilogueTask[k], vk.Name, vk.Version))
		}
		for _, sw := range s.Switches() {
			scn.Switches = append(scn.Switches, fmt.Sprintf("#%d task%d->task%d@%s", sw.Step, sw.From, sw.To, sw.Label))
		}
		res.Scenario = scn
	}
	return res
}

// clientDataDiff compares the data a LocalClient stores - the version lists
// and the requirement lists, down to the maps inside attribute sets - with
// those of a twin, and names the first field that differs. Only these two
// fields are compared: anything else a client may hold (a lock, a memo, a
// lazily built index) is allowed to change while it is being read; whether
// such state changes an answer is what the observational dump decides.
func clientDataDiff(a, b *resolve.LocalClient) string {
	va, vb := reflect.ValueOf(a).Elem(), reflect.ValueOf(b).Elem()
	for _, name := range []string{"PackageVersions", "imports"} {
		fa, fb := va.FieldByName(name), vb.FieldByName(name)
		if !fa.IsValid() || !fb.IsValid() {
			continue // the field no longer exists under that name
		}
		fa = reflect.NewAt(fa.Type(), fa.Addr().UnsafePointer()).Elem()
		fb = reflect.NewAt(fb.Type(), fb.Addr().UnsafePointer()).Elem()
		if !reflect.DeepEqual(fa.Interface(), fb.Interface()) {
			return name
		}
	}
	return ""
}

func cloneSpec(s *uni.Spec) *uni.Spec {
	out := &uni.Spec{Sys: s.Sys}
	for _, p := range s.Pkgs {
		np := uni.Pkg{Name: p.Name}
		for _, v := range p.Vers {
			nv := uni.Ver{V: v.V, Attrs: append([]uni.KV(nil), v.Attrs...)}
			for _, r := range v.Reqs {
				nv.Reqs = append(nv.Reqs, uni.Req{Name: r.Name, Req: r.Req, Type: append([]uni.KV(nil), r.Type...)})
			}
			np.Vers = append(np.Vers, nv)
		}
		out.Pkgs = append(out.Pkgs, np)
	}
	return out
}

func indexOfSys(s resolve.System) int {
	switch s {
	case resolve.NPM:
		return 0
	case resolve.Maven:
		return 1
	}
	return 2
}

// boundedClient fails every call after max calls (used for the serial
// reference resolutions, which run outside the scheduler).
type boundedClient struct {
	mu     sync.Mutex // the code under test may call its client from several goroutines
	inner  resolve.Client
	n      int
	max    int
	over   bool
	byKind [len(callKinds)]int // calls made, by kind; [0] counts them all
}

func (b *boundedClient) tick(kind string) error {
	b.mu.Lock()
	defer b.mu.Unlock()
	b.n++
	b.byKind[0]++
	b.byKind[callKindIndex(kind)]++
	if kind == "MatchingVersions:latest" {
		b.byKind[callKindIndex("MatchingVersions")]++
	}
	if b.n > b.max {
		b.over = true
		return errBudget
	}
	return nil
}

func (b *boundedClient) Version(ctx context.Context, vk resolve.VersionKey) (resolve.Version, error) {
	if err := b.tick("Version"); err != nil {
		return resolve.Version{}, err
	}
	return b.inner.Version(ctx, vk)
}
func (b *boundedClient) Versions(ctx context.Context, pk resolve.PackageKey) ([]resolve.Version, error) {
	if err := b.tick("Versions"); err != nil {
		return nil, err
	}
	return b.inner.Versions(ctx, pk)
}
func (b *boundedClient) Requirements(ctx context.Context, vk resolve.VersionKey) ([]resolve.RequirementVersion, error) {
	if err := b.tick("Requirements"); err != nil {
		return nil, err
	}
	return b.inner.Requirements(ctx, vk)
}
func (b *boundedClient) MatchingVersions(ctx context.Context, vk resolve.VersionKey) ([]resolve.Version, error) {
	kind := "MatchingVersions"
	if vk.Version == "latest" {
		kind = "MatchingVersions:latest"
	}
	if err := b.tick(kind); err != nil {
		return nil, err
	}
	return b.inner.MatchingVersions(ctx, vk)
}
