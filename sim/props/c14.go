package props

import (
	"context"
	"errors"
	"fmt"
	"sort"
	"strings"

	"deps.dev/util/resolve"
	"deps.dev/util/resolve/dep"
	"deps.dev/util/resolve/version"
	"deps.dev/util/semver"
	"verif/sim/kernel"
	"verif/sim/uni"
)

// C14: the in-memory client reports exactly what was last added. One
// simulated caller, a seeded operation history, a map-based reference model
// checked after every step. There is no schedule dimension in this property.

var c14Systems = []resolve.System{resolve.NPM, resolve.Maven, resolve.PyPI}

var c14Versions = map[resolve.System][]string{
	resolve.NPM:   {"1.0.0", "1.2.0", "2.0.0", "2.1.0-beta.1", "3.0.0", "not-a-version"},
	resolve.Maven: {"1.0.1", "1.1.1", "2.0.1", "2.0.1-rc-1", "3.0.1"},
	resolve.PyPI:  {"1.0.1", "1.1.1", "2.0.1", "2.0.1rc1", "3.0.1"},
}

// c14Exotic is a second alphabet, drawn for a third of the runs: version
// strings that are legal but unusual. For npm several of them do not parse
// (they are listed after the parsable ones, whatever their spelling: some
// sort before and some after valid versions as plain strings); two-digit
// components order numerically, not as strings; Maven SNAPSHOTs and
// qualifiers, PyPI post/dev releases and an epoch. Within one alphabet no two
// versions compare equal.
var c14Exotic = map[resolve.System][]string{
	resolve.NPM:   {"1.0.0", "1.0.0.0", "1.1.0", "nightly", "10.0.0", "2.0.0-rc.1", "1.1.0_1", "2.0.0"},
	resolve.Maven: {"1.0.1", "1.0.1-SNAPSHOT", "1.1", "10.0", "2.0.1-rc-1", "2.0.1", "2.0.1-sp-1"},
	resolve.PyPI:  {"1.0.1", "1.0.1.post1", "2.0.1.dev1", "10.0", "1!0.5", "2.0.1rc1", "2.0.1"},
}

// c14Twins is a third alphabet, drawn for a sixth of the runs: versions that
// are spelled differently but compare equal in their system (build metadata,
// trailing zero components, release-equivalent qualifiers). They are different
// keys - each is listed once, with its own attributes -, and among themselves
// they may be listed in any order ("ascending" cannot say more).
var c14Twins = map[resolve.System][]string{
	resolve.NPM:   {"1.0.0", "1.0.0+build.1", "2.0.0", "1.0.0+x", "2.0.0+1", "0.9.0"},
	resolve.Maven: {"1.0", "1.0.0", "1", "1.0-ga", "2.0", "2.0.0", "0.9"},
	resolve.PyPI:  {"1.0", "1.0.0", "1.0.0.0", "2.0", "2.0.0", "0.9", "1.0.post0.dev0"},
}

// c14SameOrder reports whether two version strings parse and compare equal.
func c14SameOrder(sys resolve.System, a, b string) bool {
	x, err1 := sys.Semver().Parse(a)
	y, err2 := sys.Semver().Parse(b)
	return err1 == nil && err2 == nil && x.Compare(y) == 0
}

// c14Unparsable reports whether ver does not parse in its system (only npm
// alphabets contain such strings).
func c14Unparsable(sys resolve.System, ver string) bool {
	_, err := sys.Semver().Parse(ver)
	return err != nil
}

var c14Pkgs = map[resolve.System][]string{
	resolve.NPM:   {"alpha", "bravo", "@sc/chuck", "Delta"},
	resolve.Maven: {"org.ex:alpha", "org.ex:bravo", "com.o:chuck", "org.ex:delta"},
	resolve.PyPI:  {"alpha", "bravo", "chuck", "delta"},
}

// packages that are only ever mentioned in requirements
var c14Outside = map[resolve.System][]string{
	resolve.NPM:   {"zeta", "omega"},
	resolve.Maven: {"org.ex:zeta", "org.ex:omega"},
	resolve.PyPI:  {"zeta", "omega"},
}

type c14Entry struct {
	attrs          []uni.KV
	reqs           []uni.Req
	adds           int
	readAfterReadd bool
}

type c14Model struct {
	vers  map[resolve.VersionKey]*c14Entry
	known map[resolve.PackageKey]bool
}

func c14DrawAttrs(t *kernel.Tape, sys resolve.System) []uni.KV {
	var out []uni.KV
	switch t.Choose(8) {
	case 1:
		out = append(out, kvp(int(version.Blocked), ""))
	case 2:
		out = append(out, kvp(int(version.Tags), "latest"))
	case 3:
		// other dist-tags, some of which merely contain the word "latest"
		out = append(out, kvp(int(version.Tags), [...]string{"next,beta", "latest-1", "next,latest", "latest-rc,beta", "oldlatest"}[t.Choose(5)]))
	case 4:
		out = append(out, kvp(int(version.Redirect), "elsewhere"))
	case 5:
		out = append(out, kvp(int(version.Error), ""), kvp(int(version.Registries), "r1|dep:r2"))
	case 6:
		out = append(out, kvp(int(version.Blocked), ""), kvp(int(version.Tags), "latest"))
	case 7:
		out = append(out, kvp(int(version.Ident), fmt.Sprintf("id-%d", t.Choose(4))))
	}
	return out
}

func kvp(k int, v string) uni.KV { return uni.KV{K: k, V: v} }

func c14DrawReqs(t *kernel.Tape, sys resolve.System) []uni.Req {
	n := t.Choose(4)
	var out []uni.Req
	for i := 0; i < n; i++ {
		var name string
		if t.Bool(1, 5) {
			o := c14Outside[sys]
			name = o[t.Choose(len(o))]
		} else {
			p := c14Pkgs[sys]
			name = p[t.Choose(len(p))]
		}
		vs := c14Versions[sys]
		r := uni.Req{Name: name, Req: c14ExactReq(sys, vs[t.Choose(len(vs))])}
		if t.Bool(1, 3) {
			r.Req = map[resolve.System]string{resolve.NPM: "*", resolve.Maven: "[0,)", resolve.PyPI: ""}[sys]
		}
		switch t.Choose(8) {
		case 1:
			r.Type = []uni.KV{kvp(int(dep.Dev), "")}
		case 2:
			r.Type = []uni.KV{kvp(int(dep.Opt), "")}
		case 3:
			r.Type = []uni.KV{kvp(int(dep.Scope), "peer")}
		case 4:
			r.Type = []uni.KV{kvp(int(dep.KnownAs), "Alias")}
		case 5:
			r.Type = []uni.KV{kvp(int(dep.Dev), ""), kvp(int(dep.Opt), "")}
		case 6:
			r.Type = []uni.KV{kvp(int(dep.Test), "")}
		}
		out = append(out, r)
	}
	return out
}

func c14ExactReq(sys resolve.System, v string) string {
	switch sys {
	case resolve.Maven:
		return "[" + v + "]"
	case resolve.PyPI:
		return "==" + v
	}
	return v
}

func reqMultiset(sys resolve.System, rs []resolve.RequirementVersion) []string {
	out := make([]string, len(rs))
	for i, r := range rs {
		out[i] = fmt.Sprintf("%d|%s@%s{%s}", r.System, r.Name, r.Version, uni.TypeString(r.Type))
	}
	sort.Strings(out)
	return out
}

func modelReqMultiset(sys resolve.System, rs []uni.Req) []string {
	out := make([]string, len(rs))
	for i, r := range rs {
		out[i] = fmt.Sprintf("%d|%s@%s{%s}", sys, r.Name, r.Req, uni.TypeString(uni.MkType(r.Type)))
	}
	sort.Strings(out)
	return out
}

// npmDepLess is the documented npm resolution order, written from the doc
// comment of SortDependencies/sortNPMDependencies: dependencies whose type is
// exactly "dev" go last; otherwise lower-case name order (the alias if there
// is one), lower case before upper case on ties.
func npmDepLess(a, b resolve.RequirementVersion) bool {
	onlyDev := func(r resolve.RequirementVersion) bool {
		kvs := uni.TypeKVs(r.Type)
		return len(kvs) == 1 && kvs[0].K == int(dep.Dev)
	}
	if da, db := onlyDev(a), onlyDev(b); da != db {
		return db
	}
	na, nb := a.Name, b.Name
	if n, ok := a.Type.GetAttr(dep.KnownAs); ok {
		na = n
	}
	if n, ok := b.Type.GetAttr(dep.KnownAs); ok {
		nb = n
	}
	la, lb := strings.ToLower(na), strings.ToLower(nb)
	if la != lb {
		return la < lb
	}
	return na > nb
}

type c14Checker struct {
	res   *Result
	c     *resolve.LocalClient
	m     *c14Model
	step  int
	trace []string
	// explicit is set while a read operation drawn from the tape is being
	// checked (as opposed to the model sweep after an addition).
	explicit bool
	alphabet map[resolve.System][]string
}

func (k *c14Checker) bad(key string, format string, args ...any) {
	violate(k.res, "model-mismatch", "model-mismatch:"+key, k.step, "step %d: %s\nhistory:\n%s", k.step, fmt.Sprintf(format, args...), strings.Join(k.trace, "\n"))
}

func (k *c14Checker) checkVersion(vk resolve.VersionKey) {
	ctx := context.Background()
	got, err := k.c.Version(ctx, vk)
	e := k.m.vers[vk]
	if e == nil {
		if err == nil {
			k.bad("Version:found-unadded", "Version(%v) returned %v for a key that was never added", vk, got)
		} else if !errors.Is(err, resolve.ErrNotFound) {
			k.bad("Version:error-kind", "Version(%v): error %v is not ErrNotFound", vk, err)
		}
		return
	}
	if err != nil {
		k.bad("Version:missing", "Version(%v): %v, but the key was added", vk, err)
		return
	}
	if got.VersionKey != vk {
		k.bad("Version:key", "Version(%v) returned key %v", vk, got.VersionKey)
	}
	want := uni.AttrString(uni.MkAttr(e.attrs))
	if g := uni.AttrString(got.AttrSet); g != want {
		aspect := "Version:attrs"
		if e.adds > 1 {
			aspect = "Version:attrs-after-readd"
		}
		k.bad(aspect, "Version(%v) attributes %s, most recent addition had %s", vk, g, want)
	}
	if e.adds > 1 && k.explicit {
		e.readAfterReadd = true
	}
}

func (k *c14Checker) modelVersionsOf(pk resolve.PackageKey) map[string]*c14Entry {
	out := map[string]*c14Entry{}
	for vk, e := range k.m.vers {
		if vk.PackageKey == pk {
			out[vk.Version] = e
		}
	}
	return out
}

func (k *c14Checker) checkVersions(pk resolve.PackageKey) {
	ctx := context.Background()
	got, err := k.c.Versions(ctx, pk)
	if !k.m.known[pk] {
		if err == nil {
			k.bad("Versions:found-unknown", "Versions(%v) succeeded (%d versions) for a package never added nor mentioned", pk, len(got))
		} else if !errors.Is(err, resolve.ErrNotFound) {
			k.bad("Versions:error-kind", "Versions(%v): error %v is not ErrNotFound", pk, err)
		}
		return
	}
	if err != nil {
		k.bad("Known:package", "Versions(%v): %v, but the package was added or mentioned in a requirement", pk, err)
		return
	}
	want := k.modelVersionsOf(pk)
	seen := map[string]bool{}
	for _, v := range got {
		if v.PackageKey != pk || v.VersionType != resolve.Concrete {
			k.bad("Versions:key", "Versions(%v) contains %v", pk, v.VersionKey)
		}
		if seen[v.Version] {
			k.bad("Versions:dup", "Versions(%v) lists %s twice", pk, v.Version)
		}
		seen[v.Version] = true
		e := want[v.Version]
		if e == nil {
			k.bad("Versions:extra", "Versions(%v) lists %s, which was never added", pk, v.Version)
			continue
		}
		if g, w := uni.AttrString(v.AttrSet), uni.AttrString(uni.MkAttr(e.attrs)); g != w {
			aspect := "Versions:attrs"
			if e.adds > 1 {
				aspect = "Versions:attrs-after-readd"
			}
			k.bad(aspect, "Versions(%v): %s has attributes %s, most recent addition had %s", pk, v.Version, g, w)
		}
	}
	for ver := range want {
		if !seen[ver] {
			k.bad("Versions:missing", "Versions(%v) does not list added version %s", pk, ver)
		}
	}
	// Ascending order among parsable versions; for npm a latest-tagged version
	// is exempt from the position check and unparsable versions come after
	// parsable ones.
	sys := pk.System.Semver()
	var prev *semver.Version
	prevStr := ""
	sawUnparsable := false
	for _, v := range got {
		if pk.System == resolve.NPM {
			if tags, _ := v.GetAttr(version.Tags); strings.Contains(tags, "latest") {
				continue
			}
		}
		sv, err := sys.Parse(v.Version)
		if err != nil {
			sawUnparsable = true
			continue
		}
		if sawUnparsable && pk.System == resolve.NPM {
			k.bad("Versions:order", "Versions(%v): parsable %s listed after an unparsable version", pk, v.Version)
		}
		if prev != nil && prev.Compare(sv) == 0 && prevStr != v.Version {
			// two spellings of one position in the order: either may come first
			probe(k.res, "equal_comparing_neighbours_listed", 1)
		} else if prev != nil && prev.Compare(sv) >= 0 {
			k.bad("Versions:order", "Versions(%v): %s listed before %s", pk, prevStr, v.Version)
		}
		prev, prevStr = sv, v.Version
	}
}

func (k *c14Checker) checkRequirements(vk resolve.VersionKey) {
	ctx := context.Background()
	got, err := k.c.Requirements(ctx, vk)
	e := k.m.vers[vk]
	if e == nil {
		if err == nil {
			k.bad("Requirements:found-unadded", "Requirements(%v) succeeded for a key that was never added", vk)
		} else if !errors.Is(err, resolve.ErrNotFound) {
			k.bad("Requirements:error-kind", "Requirements(%v): error %v is not ErrNotFound", vk, err)
		}
		return
	}
	if err != nil {
		k.bad("Requirements:missing", "Requirements(%v): %v, but the key was added", vk, err)
		return
	}
	g, w := reqMultiset(vk.System, got), modelReqMultiset(vk.System, e.reqs)
	if strings.Join(g, "\n") != strings.Join(w, "\n") {
		aspect := "Requirements:content"
		if e.adds > 1 {
			aspect = "Requirements:content-after-readd"
		}
		k.bad(aspect, "Requirements(%v) = %v, most recent addition gave %v", vk, g, w)
		return
	}
	if vk.System == resolve.NPM {
		for i := 1; i < len(got); i++ {
			if npmDepLess(got[i], got[i-1]) {
				k.bad("Requirements:npm-order", "Requirements(%v): %s@%s listed before %s@%s", vk, got[i-1].Name, got[i-1].Version, got[i].Name, got[i].Version)
			}
		}
	} else {
		for i := range got {
			if got[i].Name != e.reqs[i].Name || got[i].Version != e.reqs[i].Req || uni.TypeString(got[i].Type) != uni.TypeString(uni.MkType(e.reqs[i].Type)) {
				k.bad("Requirements:order", "Requirements(%v): position %d is %s@%s, the addition listed %s@%s there", vk, i, got[i].Name, got[i].Version, e.reqs[i].Name, e.reqs[i].Req)
				break
			}
		}
	}
	if e.adds > 1 && k.explicit {
		e.readAfterReadd = true
	}
}

func (k *c14Checker) checkMatching(pk resolve.PackageKey, req string, exactOf string) {
	ctx := context.Background()
	rk := resolve.VersionKey{PackageKey: pk, VersionType: resolve.Requirement, Version: req}
	got, err := k.c.MatchingVersions(ctx, rk)
	if !k.m.known[pk] {
		if err == nil {
			k.bad("Matching:found-unknown", "MatchingVersions(%v) succeeded for an unknown package", rk)
		} else if !errors.Is(err, resolve.ErrNotFound) {
			k.bad("Matching:error-kind", "MatchingVersions(%v): error %v is not ErrNotFound", rk, err)
		}
		return
	}
	if err != nil {
		k.bad("Known:package", "MatchingVersions(%v): %v, but the package is known", rk, err)
		return
	}
	want := k.modelVersionsOf(pk)
	seen := map[string]bool{}
	for _, v := range got {
		e := want[v.Version]
		if e == nil || v.PackageKey != pk {
			k.bad("Matching:extra", "MatchingVersions(%v) returned %v, which was never added", rk, v.VersionKey)
			continue
		}
		if seen[v.Version] {
			k.bad("Matching:dup", "MatchingVersions(%v) returned %s twice", rk, v.Version)
		}
		seen[v.Version] = true
		if g, w := uni.AttrString(v.AttrSet), uni.AttrString(uni.MkAttr(e.attrs)); g != w {
			aspect := "Matching:attrs"
			if e.adds > 1 {
				aspect = "Matching:attrs-after-readd"
			}
			k.bad(aspect, "MatchingVersions(%v): %s has attributes %s, most recent addition had %s", rk, v.Version, g, w)
		}
	}
	if exactOf != "" {
		_, added := want[exactOf]
		if added && !seen[exactOf] {
			k.bad("Matching:exact-missing", "MatchingVersions(%v) does not return the added version %s it names exactly", rk, exactOf)
		}
		for v := range seen {
			if v != exactOf && !c14SameOrder(pk.System, v, exactOf) {
				k.bad("Matching:exact-extra", "MatchingVersions(%v) returned %s for an exact requirement on %s", rk, v, exactOf)
			}
		}
	}
}

func (k *c14Checker) sweep() {
	for _, sys := range c14Systems {
		for _, lists := range [][]string{c14Pkgs[sys], c14Outside[sys]} {
			for _, name := range lists {
				pk := resolve.PackageKey{System: sys, Name: name}
				k.checkVersions(pk)
				for _, v := range k.alphabet[sys] {
					vk := resolve.VersionKey{PackageKey: pk, VersionType: resolve.Concrete, Version: v}
					k.checkVersion(vk)
					k.checkRequirements(vk)
				}
			}
		}
	}
}

// RunC14 runs one history for C14.
func RunC14(t *kernel.Tape, o Opts) *Result {
	res := &Result{Prop: "C14", Status: "ok", Config: "history"}
	c := resolve.NewLocalClient()
	m := &c14Model{vers: map[resolve.VersionKey]*c14Entry{}, known: map[resolve.PackageKey]bool{}}
	k := &c14Checker{res: res, c: c, m: m}
	nops := t.Range(4, 60)
	// restrict the key space per run so that repeated keys are likely
	nsys := t.Range(1, 3)
	npk := t.Range(1, 4)
	nver := t.Range(1, 5)
	alphabet := c14Versions
	if t.Bool(1, 3) {
		alphabet = c14Exotic
		nver = t.Range(2, 8)
		fault(res, "exotic_version_alphabet_runs", 1)
	}
	if t.Bool(1, 6) {
		alphabet = c14Twins
		nver = t.Range(2, 7)
		fault(res, "equal_comparing_version_spellings_runs", 1)
	}
	k.alphabet = alphabet
	readds, deleted, reads := 0, 0, 0
	for step := 0; step < nops; step++ {
		k.step = step
		sys := c14Systems[t.Choose(nsys)]
		pkgs := c14Pkgs[sys]
		name := pkgs[t.Choose(npk)]
		pk := resolve.PackageKey{System: sys, Name: name}
		vs := alphabet[sys]
		nv := nver
		if sys == resolve.NPM && nv == 5 && t.Bool(1, 4) {
			nv = 6 // include the unparsable npm version
		}
		if nv > len(vs) {
			nv = len(vs)
		}
		ver := vs[t.Choose(nv)]
		vk := resolve.VersionKey{PackageKey: pk, VersionType: resolve.Concrete, Version: ver}
		k.explicit = true
		switch op := t.Choose(8); op {
		case 0, 1, 2: // Add
			k.explicit = false
			attrs := c14DrawAttrs(t, sys)
			reqs := c14DrawReqs(t, sys)
			del := t.Bool(1, 10)
			if del {
				attrs = append(attrs, kvp(int(version.Deleted), ""))
			}
			k.trace = append(k.trace, fmt.Sprintf("%d: AddVersion(%s %s %s attrs=%s reqs=%v)", step, sysNames[sys], name, ver, uni.AttrString(uni.MkAttr(attrs)), modelReqMultiset(sys, reqs)))
			spec := uni.Spec{Sys: sys}
			c.AddVersion(resolve.Version{VersionKey: vk, AttrSet: uni.MkAttr(attrs)}, spec.MkReqs(reqs))
			if del {
				deleted++
			} else {
				e := m.vers[vk]
				if e == nil {
					e = &c14Entry{}
					m.vers[vk] = e
				} else {
					readds++
				}
				e.adds++
				e.attrs, e.reqs = attrs, reqs
				m.known[pk] = true
				for _, r := range reqs {
					m.known[resolve.PackageKey{System: sys, Name: r.Name}] = true
				}
			}
			k.sweep()
			k.explicit = true
		case 3:
			k.trace = append(k.trace, fmt.Sprintf("%d: Version(%s %s %s)", step, sysNames[sys], name, ver))
			k.checkVersion(vk)
			reads++
		case 4:
			if t.Bool(1, 4) {
				o := c14Outside[sys]
				pk.Name = o[t.Choose(len(o))]
			}
			k.trace = append(k.trace, fmt.Sprintf("%d: Versions(%s %s)", step, sysNames[sys], pk.Name))
			k.checkVersions(pk)
			reads++
		case 5:
			k.trace = append(k.trace, fmt.Sprintf("%d: Requirements(%s %s %s)", step, sysNames[sys], name, ver))
			k.checkRequirements(vk)
			reads++
		default:
			if t.Bool(1, 4) {
				o := c14Outside[sys]
				pk.Name = o[t.Choose(len(o))]
			}
			req, exact := "", ""
			switch t.Choose(3) {
			case 0:
				req = map[resolve.System]string{resolve.NPM: "*", resolve.Maven: "[0,)", resolve.PyPI: ""}[sys]
			case 1:
				if !c14Unparsable(sys, ver) {
					req, exact = c14ExactReq(sys, ver), ver
				} else {
					req, exact = ver, ver
				}
			default:
				req = map[resolve.System]string{resolve.NPM: "latest", resolve.Maven: "[1.0.1,3.0.1)", resolve.PyPI: ">=1.1.1"}[sys]
			}
			k.trace = append(k.trace, fmt.Sprintf("%d: MatchingVersions(%s %s@%s)", step, sysNames[sys], pk.Name, req))
			k.checkMatching(pk, req, exact)
			// a read that must not disturb what is stored
			k.checkVersions(pk)
			reads++
		}
		if len(res.Violations) > 0 {
			break
		}
	}
	// Forked read-only phase: several simulated callers look things up on the
	// populated client at the same time. Lookups are reads: the race oracle
	// must stay silent and every answer must equal the answer given serially.
	if len(res.Violations) == 0 && len(m.vers) > 0 && t.Bool(1, 2) {
		res.Config = "history+readers"
		type rd struct {
			kind int
			vk   resolve.VersionKey
		}
		var keys []resolve.VersionKey
		for vk := range m.vers {
			keys = append(keys, vk)
		}
		resolve.SortVersionKeys(keys)
		nr := t.Range(2, 4)
		progs := make([][]rd, nr)
		for i := range progs {
			for j, n := 0, t.Range(2, 6); j < n; j++ {
				vk := keys[t.Choose(len(keys))]
				kind := t.Choose(4)
				if kind == 3 {
					vk.VersionType = resolve.Requirement
					if t.Bool(1, 2) {
						vk.Version = map[resolve.System]string{resolve.NPM: "*", resolve.Maven: "[0,)", resolve.PyPI: ""}[vk.System]
					} else if !c14Unparsable(vk.System, vk.Version) {
						vk.Version = c14ExactReq(vk.System, vk.Version)
					}
				}
				progs[i] = append(progs[i], rd{kind, vk})
			}
		}
		do := func(r rd) string {
			ctx := context.Background()
			switch r.kind {
			case 0:
				v, err := c.Version(ctx, r.vk)
				return fmt.Sprintf("%v|%s{%s}", err, v.Version, uni.AttrString(v.AttrSet))
			case 1:
				vs, err := c.Versions(ctx, r.vk.PackageKey)
				out := fmt.Sprint(err)
				for _, v := range vs {
					out += "|" + v.Version + "{" + uni.AttrString(v.AttrSet) + "}"
				}
				return out
			case 2:
				rs, err := c.Requirements(ctx, r.vk)
				return fmt.Sprintf("%v|%v", err, reqMultiset(r.vk.System, rs))
			default:
				vs, err := c.MatchingVersions(ctx, r.vk)
				out := fmt.Sprint(err)
				for _, v := range vs {
					out += "|" + v.Version + "{" + uni.AttrString(v.AttrSet) + "}"
				}
				return out
			}
		}
		cfg := drawSched(t, []string{"read"})
		sch := kernel.NewSched(t, cfg)
		got := make([][]string, nr)
		fns := make([]func(*kernel.Task), nr)
		for i := range progs {
			i := i
			fns[i] = func(*kernel.Task) {
				for _, r := range progs[i] {
					sch.Yield(kernel.KindOp, "read", true)
					got[i] = append(got[i], do(r))
				}
			}
		}
		okRun := sch.Run(fns)
		res.Switches = sch.SwitchCount
		res.SchedHash = fmt.Sprintf("%016x", sch.Hash)
		if !okRun {
			res.Status = "stalled"
			return res
		}
		res.RaceSteps = sch.Races()
		fault(res, "concurrent_reader_preemptions", sch.SwitchCount)
		for i := range progs {
			if pv := sch.TaskPanic(i); pv != nil {
				violate(res, "panic", "panic:reader", nops, "reader %d panicked: %v", i, pv)
			}
			for j, r := range progs[i] {
				if j < len(got[i]) {
					if want := do(r); got[i][j] != want {
						violate(res, "model-mismatch", "model-mismatch:concurrent-read", nops, "reader %d read %d: got %s, the same lookup done serially gives %s", i, j, got[i][j], want)
					}
				}
			}
		}
		k.step = nops
		k.explicit = false
		k.sweep()
		probe(res, "reader_phases", 1)
	}
	fault(res, "readditions_of_existing_key", readds)
	fault(res, "deleted_flagged_additions", deleted)
	probe(res, "reads", reads)
	for _, e := range m.vers {
		if e.adds > 1 && e.readAfterReadd {
			res.NonTrivial = true
		}
	}
	res.Yields = len(k.trace)
	res.Distinct = hashStrings(append(append([]string(nil), k.trace...), res.SchedHash)...)
	{
		ctx := context.Background()
		obs := append([]string(nil), k.trace...)
		for _, sys := range c14Systems {
			for _, lists := range [][]string{c14Pkgs[sys], c14Outside[sys]} {
				for _, name := range lists {
					vs, err := c.Versions(ctx, resolve.PackageKey{System: sys, Name: name})
					obs = append(obs, fmt.Sprintf("%v|%v", err, vs))
				}
			}
		}
		res.Digest = hashStrings(obs...)
	}
	if len(res.Violations) > 0 || len(res.RaceSteps) > 0 || o.WantDetail {
		res.Scenario = map[string]any{"history": k.trace}
	}
	return res
}
