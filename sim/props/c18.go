package props

import (
	"context"
	"errors"
	"fmt"
	"os"
	"sort"
	"strings"
	"time"

	pb "deps.dev/api/v3"
	"deps.dev/util/resolve"
	"deps.dev/util/resolve/dep"
	"deps.dev/util/resolve/npm"
	"deps.dev/util/resolve/version"
	"deps.dev/util/semver/verifhook"
	"github.com/anishathalye/porcupine"
	"google.golang.org/grpc"
	"google.golang.org/grpc/codes"
	"google.golang.org/grpc/status"
	"google.golang.org/protobuf/proto"
	"verif/sim/gen"
	"verif/sim/kernel"
	"verif/sim/uni"
)

// C18: the API-backed client maps bundles and aliases consistently and is
// race-free. An abstract npm service universe is rendered two ways: as the
// protobuf responses of a simulated Insights service, and - through an
// independent model of the documented mapping - as a reference LocalClient
// universe.

type svcDep struct {
	Name string `json:"name"`
	Req  string `json:"req"`
}

type svcDeps struct {
	Deps   []svcDep `json:"dependencies,omitempty"`
	Dev    []svcDep `json:"devDependencies,omitempty"`
	Opt    []svcDep `json:"optionalDependencies,omitempty"`
	Peer   []svcDep `json:"peerDependencies,omitempty"`
	Bundle []string `json:"bundleDependencies,omitempty"`
}

type svcBundle struct {
	Path    []string `json:"path"` // directory names below node_modules, outermost first
	Name    string   `json:"name"` // name declared by the bundled package.json
	Version string   `json:"version"`
	Deps    svcDeps  `json:"deps"`
}

type svcVersion struct {
	V       string      `json:"version"`
	Default bool        `json:"is_default,omitempty"`
	Deps    svcDeps     `json:"deps"`
	Bundled []svcBundle `json:"bundled,omitempty"`
}

type svcPkg struct {
	Name string       `json:"name"`
	Vers []svcVersion `json:"versions"`
}

type svcSpec struct {
	Pkgs []svcPkg `json:"packages"`
}

var c18Names = []string{"alpha", "bravo", "@sc/chuck", "delta", "@org.x/echo-fox", "golf", "hotel"}

func c18Req(t *kernel.Tape, vers []string) string {
	v := vers[t.Choose(len(vers))]
	core := v
	if i := strings.IndexByte(v, '-'); i >= 0 {
		core = v[:i]
	}
	switch t.Choose(7) {
	case 0:
		return "^" + core
	case 1:
		return "*"
	case 2:
		return v
	case 3:
		return "~" + core
	case 4:
		return ">=" + core
	case 5:
		return "latest"
	default:
		return fmt.Sprintf("%s || %s", v, vers[t.Choose(len(vers))])
	}
}

func c18Deps(t *kernel.Tape, names []string, vers map[string][]string, from, max int) svcDeps {
	var d svcDeps
	one := func() svcDep {
		// mostly later packages (DAG), sometimes any
		var tp int
		if from < len(names)-1 && !t.Bool(1, 8) {
			tp = from + 1 + t.Choose(len(names)-1-from)
		} else {
			tp = t.Choose(len(names))
		}
		n := names[tp]
		r := c18Req(t, vers[n])
		if t.Bool(1, 5) {
			// alias: "alias-name": "npm:real@range"
			al := "al-" + strings.TrimPrefix(strings.ReplaceAll(n, "/", "-"), "@")
			if t.Bool(1, 3) {
				al = "@al/" + strings.TrimPrefix(strings.ReplaceAll(n, "/", "-"), "@")
			}
			return svcDep{Name: al, Req: "npm:" + n + "@" + r}
		}
		return svcDep{Name: n, Req: r}
	}
	// the sections of a package.json are JSON objects: a name occurs at most
	// once per section (it may occur in several sections)
	addUnique := func(sec *[]svcDep, x svcDep) {
		for _, y := range *sec {
			if y.Name == x.Name {
				return
			}
		}
		*sec = append(*sec, x)
	}
	for i, n := 0, t.Choose(max+1); i < n; i++ {
		addUnique(&d.Deps, one())
	}
	// the other sections: usually empty, sometimes several entries (types
	// built from one section must not leak into each other)
	for _, sec := range []*[]svcDep{&d.Dev, &d.Opt, &d.Peer} {
		if t.Bool(1, 5) {
			k := 3
			if max > 8 {
				k = 8 // a wide package.json, see c18Gen
			}
			for i, n := 0, 1+t.Choose(k); i < n; i++ {
				addUnique(sec, one())
			}
		}
	}
	if max > 8 {
		// wide: bundleDependencies lists several of the names (npm's
		// "bundleDependencies": true lists them all), regular and optional
		for _, sec := range [][]svcDep{d.Deps, d.Opt} {
			for _, x := range sec {
				dup := false
				for _, y := range d.Bundle {
					dup = dup || y == x.Name
				}
				if !dup && t.Bool(1, 3) {
					d.Bundle = append(d.Bundle, x.Name)
				}
			}
		}
	} else if len(d.Deps) > 0 && t.Bool(1, 4) {
		d.Bundle = append(d.Bundle, d.Deps[t.Choose(len(d.Deps))].Name)
	}
	return d
}

func c18Gen(t *kernel.Tape, maxPkgs int) *svcSpec {
	n := t.Range(3, maxPkgs)
	if n > len(c18Names) {
		n = len(c18Names)
	}
	names := c18Names[:n]
	vers := map[string][]string{}
	for _, nm := range names {
		k := t.Range(1, 4)
		seen := map[string]bool{}
		for len(vers[nm]) < k {
			v := fmt.Sprintf("%d.%d.%d", 1+t.Choose(3), t.Choose(3), t.Choose(3))
			if len(vers[nm]) == 0 {
				v = "1.0.0"
			}
			if t.Bool(1, 8) {
				v += "-beta.1"
			}
			if seen[v] {
				v = fmt.Sprintf("%d.0.%d", 4+len(vers[nm]), len(vers[nm]))
			}
			seen[v] = true
			vers[nm] = append(vers[nm], v)
		}
	}
	s := &svcSpec{}
	for i, nm := range names {
		p := svcPkg{Name: nm}
		def := -1
		if t.Bool(2, 3) {
			def = t.Choose(len(vers[nm]))
		}
		for vi, v := range vers[nm] {
			// mostly a handful of dependencies; now and then a wide
			// package.json (more than a dozen entries over the sections, so
			// that the same name in two sections, or an alias together with
			// its bundleDependencies entry, meets the sorting of long lists)
			mx := 3
			if t.Bool(1, 12) {
				mx = 16
			}
			sv := svcVersion{V: v, Default: vi == def, Deps: c18Deps(t, names, vers, i, mx)}
			if i < 3 && t.Bool(1, 2) {
				// a bundle tree of depth <= 3
				nb := t.Range(1, 3)
				used := map[string]bool{}
				for b := 0; b < nb; b++ {
					depth := 1 + t.Choose(3)
					var path []string
					for d := 0; d < depth; d++ {
						cn := names[t.Choose(len(names))]
						dir := cn
						if t.Bool(1, 5) {
							dir = "al-" + strings.TrimPrefix(strings.ReplaceAll(cn, "/", "-"), "@")
						}
						path = append(path, dir)
						key := strings.Join(path, "\x00")
						if used[key] {
							continue
						}
						used[key] = true
						bv := vers[cn][t.Choose(len(vers[cn]))]
						if t.Bool(1, 4) || (dir != cn && t.Bool(1, 2)) {
							bv = "9.9.9" // exists only inside the bundle
						}
						sv.Bundled = append(sv.Bundled, svcBundle{Path: append([]string(nil), path...), Name: cn, Version: bv, Deps: c18Deps(t, names, vers, i, 2)})
						if dir != cn && t.Bool(1, 2) {
							// the directory is an alias: whoever holds this
							// node_modules usually depends on it under that alias
							req := []string{"*", bv, "^" + strings.SplitN(bv, "-", 2)[0], ">=0.0.1", "^7.0.0"}[t.Choose(5)]
							ad := svcDep{Name: dir, Req: "npm:" + cn + "@" + req}
							holder := &sv.Deps
							if d > 0 {
								for bi := range sv.Bundled {
									if strings.Join(sv.Bundled[bi].Path, "\x00") == strings.Join(path[:d], "\x00") {
										holder = &sv.Bundled[bi].Deps
									}
								}
							}
							dup := false
							for _, y := range holder.Deps {
								dup = dup || y.Name == ad.Name
							}
							if !dup {
								holder.Deps = append(holder.Deps, ad)
							}
						}
					}
				}
				// the service lists bundles in no particular order
				p := gen.Perm(t, len(sv.Bundled))
				nbs := make([]svcBundle, len(sv.Bundled))
				for a, b := range p {
					nbs[a] = sv.Bundled[b]
				}
				sv.Bundled = nbs
			}
			p.Vers = append(p.Vers, sv)
		}
		s.Pkgs = append(s.Pkgs, p)
	}
	return s
}

// ---- the independent model of the documented mapping -----------------------

func c18Mangled(root, ver string, path []string) string {
	return root + ">" + ver + ">" + strings.Join(path, ">")
}

// c18Flatten maps the dependency sections of one package.json to
// requirements: regular, dev, opt, peer (Scope peer), bundleDependencies
// (Scope bundle, requirement *); "alias": "npm:real@range" becomes a
// requirement on real with range, known as alias (the real name may itself
// start with @, so the range starts after the last @).
func c18Flatten(d svcDeps) []uni.Req {
	var out []uni.Req
	add := func(ds []svcDep, typ []uni.KV) {
		for _, x := range ds {
			r := uni.Req{Name: x.Name, Req: x.Req, Type: append([]uni.KV(nil), typ...)}
			if rest, ok := strings.CutPrefix(x.Req, "npm:"); ok {
				at := strings.LastIndex(rest, "@")
				r.Name, r.Req = rest[:at], rest[at+1:]
				r.Type = append(r.Type, uni.KV{K: int(dep.KnownAs), V: x.Name})
			}
			out = append(out, r)
		}
	}
	add(d.Deps, nil)
	add(d.Dev, []uni.KV{{K: int(dep.Dev)}})
	add(d.Opt, []uni.KV{{K: int(dep.Opt)}})
	add(d.Peer, []uni.KV{{K: int(dep.Scope), V: "peer"}})
	for _, n := range d.Bundle {
		out = append(out, uni.Req{Name: n, Req: "*", Type: []uni.KV{{K: int(dep.Scope), V: "bundle"}}})
	}
	return out
}

// c18Model renders the service universe as the universe an in-memory client
// would hold: every bundled package becomes a package named
// root>version>path with a single concrete version that records the package
// it derives from; its bundling parent requires exactly that version.
func c18Model(s *svcSpec) (*uni.Spec, map[string]string) {
	out := &uni.Spec{Sys: resolve.NPM}
	rootOf := map[string]string{} // mangled package name -> "root version"
	for _, p := range s.Pkgs {
		mp := uni.Pkg{Name: p.Name}
		var extra []uni.Pkg
		for _, v := range p.Vers {
			mv := uni.Ver{V: v.V, Reqs: c18Flatten(v.Deps)}
			if v.Default {
				mv.Attrs = []uni.KV{{K: int(version.Tags), V: "latest"}}
			}
			for _, b := range v.Bundled {
				name := c18Mangled(p.Name, v.V, b.Path)
				rootOf[name] = p.Name + " " + v.V
				bp := uni.Pkg{Name: name, Vers: []uni.Ver{{V: b.Version, Attrs: []uni.KV{{K: int(version.DerivedFrom), V: b.Name}}, Reqs: c18Flatten(b.Deps)}}}
				// direct children of this bundle
				for _, c := range v.Bundled {
					if len(c.Path) == len(b.Path)+1 && strings.Join(c.Path[:len(b.Path)], "\x00") == strings.Join(b.Path, "\x00") {
						bp.Vers[0].Reqs = append(bp.Vers[0].Reqs, uni.Req{Name: c18Mangled(p.Name, v.V, c.Path), Req: c.Version})
					}
				}
				extra = append(extra, bp)
				if len(b.Path) == 1 {
					mv.Reqs = append(mv.Reqs, uni.Req{Name: name, Req: b.Version})
				}
			}
			mp.Vers = append(mp.Vers, mv)
		}
		out.Pkgs = append(out.Pkgs, mp)
		out.Pkgs = append(out.Pkgs, extra...)
	}
	return out, rootOf
}

// ---- the simulated Insights service ------------------------------------------

type simService struct {
	pb.InsightsClient // unimplemented methods panic: APIClient must not call them for npm
	s                 *kernel.Sched
	pkgs              map[string][]byte
	vers              map[string][]byte
	reqs              map[string][]byte
	calls             int
	maxCalls          int
	// fault plan of each task's current operation (aborted-operation faults:
	// the k-th RPC of the operation fails, or the operation's context is
	// cancelled there); a task touches only its own slots
	cancels []context.CancelFunc
	fkind   []int
	fat     []int
	flabel  []int
	fperiod []int
	fcount  []int
	fired   []bool
}

var rpcKinds = [...]string{"", "GetRequirements", "GetPackage", "GetVersion"}

func (sv *simService) enableFaults() {
	n := kernel.MaxTasks
	sv.cancels = make([]context.CancelFunc, n)
	sv.fkind, sv.fat, sv.flabel, sv.fperiod, sv.fcount, sv.fired = make([]int, n), make([]int, n), make([]int, n), make([]int, n), make([]int, n), make([]bool, n)
}

func (sv *simService) plan(t, kind, label, at, period int) {
	if sv.fkind == nil {
		return
	}
	sv.fkind[t], sv.flabel[t], sv.fat[t], sv.fperiod[t], sv.fcount[t], sv.fired[t] = kind, label, at, period, 0, false
}

// sched / setSched: goroutines the code under test started (and possibly left
// behind for good, never joined) read the field in rpc; the main goroutine
// writes it between phases.
//
//go:norace
func (sv *simService) sched() *kernel.Sched { return sv.s }

//go:norace
func (sv *simService) setSched(s *kernel.Sched) { sv.s = s }

func (sv *simService) taskFired(t int) bool { return sv.fired != nil && sv.fired[t] }

var errRPCUnavailable = status.Error(codes.Unavailable, "injected fault: service unavailable")
var errRPCCanceled = status.Error(codes.Canceled, "context canceled")

func pbDeps(d svcDeps) *pb.Requirements_NPM_Dependencies {
	conv := func(ds []svcDep) []*pb.Requirements_NPM_Dependencies_Dependency {
		var out []*pb.Requirements_NPM_Dependencies_Dependency
		for _, x := range ds {
			out = append(out, &pb.Requirements_NPM_Dependencies_Dependency{Name: x.Name, Requirement: x.Req})
		}
		return out
	}
	return &pb.Requirements_NPM_Dependencies{
		Dependencies:         conv(d.Deps),
		DevDependencies:      conv(d.Dev),
		OptionalDependencies: conv(d.Opt),
		PeerDependencies:     conv(d.Peer),
		BundleDependencies:   append([]string(nil), d.Bundle...),
	}
}

func mustMarshal(m proto.Message) []byte {
	b, err := proto.Marshal(m)
	if err != nil {
		panic(err)
	}
	return b
}

// newSimService stores every response in wire form; each call decodes a fresh
// message, as a real transport would.
func newSimService(t *kernel.Tape, s *svcSpec, mentioned []string) *simService {
	sv := &simService{pkgs: map[string][]byte{}, vers: map[string][]byte{}, reqs: map[string][]byte{}, maxCalls: 6000}
	for _, p := range s.Pkgs {
		pk := &pb.PackageKey{System: pb.System_NPM, Name: p.Name}
		msg := &pb.Package{PackageKey: pk}
		order := gen.Perm(t, len(p.Vers)) // version lists come in no particular order
		for _, i := range order {
			v := p.Vers[i]
			msg.Versions = append(msg.Versions, &pb.Package_Version{VersionKey: &pb.VersionKey{System: pb.System_NPM, Name: p.Name, Version: v.V}, IsDefault: v.Default})
		}
		sv.pkgs[p.Name] = mustMarshal(msg)
		for _, v := range p.Vers {
			vk := &pb.VersionKey{System: pb.System_NPM, Name: p.Name, Version: v.V}
			sv.vers[p.Name+"\x00"+v.V] = mustMarshal(&pb.Version{VersionKey: vk, IsDefault: v.Default})
			rq := &pb.Requirements_NPM{Dependencies: pbDeps(v.Deps)}
			for _, b := range v.Bundled {
				rq.Bundled = append(rq.Bundled, &pb.Requirements_NPM_Bundle{
					Path: "node_modules/" + strings.Join(b.Path, "/node_modules/"), Name: b.Name, Version: b.Version, Dependencies: pbDeps(b.Deps)})
			}
			sv.reqs[p.Name+"\x00"+v.V] = mustMarshal(&pb.Requirements{Npm: rq})
		}
	}
	// packages that are only mentioned: known, no versions
	// A package that is only mentioned in requirements (a dangling dependency,
	// or the alias name listed in bundleDependencies) is either unknown to the
	// service (NotFound, as the real service answers) or known without versions.
	if t.Bool(1, 2) {
		mentioned = nil
	}
	for _, n := range mentioned {
		if _, ok := sv.pkgs[n]; !ok {
			sv.pkgs[n] = mustMarshal(&pb.Package{PackageKey: &pb.PackageKey{System: pb.System_NPM, Name: n}})
		}
	}
	return sv
}

func (sv *simService) rpc(ctx context.Context, label string) error {
	s := sv.sched()
	if s == nil {
		return nil
	}
	if s.IsAborted() {
		return status.Error(codes.Canceled, "simulation budget exceeded")
	}
	s.Yield(kernel.KindIO, label, true)
	if s.IsAborted() {
		return status.Error(codes.Canceled, "simulation budget exceeded")
	}
	if verifhook.DeadlineFired(ctx) {
		// a deadline the code under test set itself passed while the RPC was
		// under way: gRPC answers with the status of the context's error
		return status.FromContextError(ctx.Err()).Err()
	}
	if sv.fkind == nil {
		return nil
	}
	t := s.CurTask()
	if t >= len(sv.fkind) || sv.fkind[t] == faultNone {
		return nil
	}
	aimed := sv.flabel[t] == 0 || rpcKinds[sv.flabel[t]] == label
	if aimed {
		sv.fcount[t]++
	}
	if sv.fcount[t] >= sv.fat[t] && (sv.fired[t] || aimed) {
		first := !sv.fired[t]
		sv.fired[t] = true
		s.SetNote(t, noteFired, 1)
		switch sv.fkind[t] {
		case faultCancel:
			if first && sv.cancels[t] != nil {
				sv.cancels[t]()
			}
		case faultCancelCalls:
			if first && sv.cancels[t] != nil {
				sv.cancels[t]()
			}
			return errRPCCanceled
		case faultErrOnce:
			if first {
				return errRPCUnavailable
			}
		case faultErrFrom:
			return errRPCUnavailable
		case faultErrEvery:
			if aimed && (sv.fcount[t]-sv.fat[t])%sv.fperiod[t] == 0 {
				return errRPCUnavailable
			}
		}
	}
	return nil
}

func (sv *simService) GetPackage(ctx context.Context, in *pb.GetPackageRequest, _ ...grpc.CallOption) (*pb.Package, error) {
	if err := sv.rpc(ctx, "GetPackage"); err != nil {
		return nil, err
	}
	b, ok := sv.pkgs[in.GetPackageKey().GetName()]
	if !ok || in.GetPackageKey().GetSystem() != pb.System_NPM {
		return nil, status.Error(codes.NotFound, "package not found")
	}
	out := &pb.Package{}
	if err := proto.Unmarshal(b, out); err != nil {
		return nil, err
	}
	return out, nil
}

func (sv *simService) GetVersion(ctx context.Context, in *pb.GetVersionRequest, _ ...grpc.CallOption) (*pb.Version, error) {
	if err := sv.rpc(ctx, "GetVersion"); err != nil {
		return nil, err
	}
	k := in.GetVersionKey()
	b, ok := sv.vers[k.GetName()+"\x00"+k.GetVersion()]
	if !ok || k.GetSystem() != pb.System_NPM {
		return nil, status.Error(codes.NotFound, "version not found")
	}
	out := &pb.Version{}
	if err := proto.Unmarshal(b, out); err != nil {
		return nil, err
	}
	return out, nil
}

func (sv *simService) GetRequirements(ctx context.Context, in *pb.GetRequirementsRequest, _ ...grpc.CallOption) (*pb.Requirements, error) {
	if err := sv.rpc(ctx, "GetRequirements"); err != nil {
		return nil, err
	}
	k := in.GetVersionKey()
	b, ok := sv.reqs[k.GetName()+"\x00"+k.GetVersion()]
	if !ok || k.GetSystem() != pb.System_NPM {
		return nil, status.Error(codes.NotFound, "version not found")
	}
	out := &pb.Requirements{}
	if err := proto.Unmarshal(b, out); err != nil {
		return nil, err
	}
	return out, nil
}

// ---- recording layer between callers and the APIClient -----------------------

type c18Call struct {
	task     int
	kind     string // Version | Versions | Requirements | MatchingVersions
	key      resolve.VersionKey
	call     uint64
	ret      uint64
	faulted  bool   // returned while a fault of the caller's operation had fired
	found    bool   // no error
	notFound bool   // errors.Is(err, ErrNotFound)
	errText  string // any other error
	digest   string
}

type c18Recorder struct {
	inner   *resolve.APIClient
	svc     *simService
	base    uint64 // added to the stamps (phases after the first)
	s       *kernel.Sched
	perTask [][]c18Call
	ncalls  []int
	maxCall int
}

//go:norace
func (r *c18Recorder) sched() *kernel.Sched { return r.s }

//go:norace
func (r *c18Recorder) setSched(s *kernel.Sched) { r.s = s }

func digestVersions(vs []resolve.Version, sorted bool) string {
	out := make([]string, len(vs))
	for i, v := range vs {
		out[i] = v.Name + "@" + v.Version + "{" + uni.AttrString(v.AttrSet) + "}"
	}
	if sorted {
		sort.Strings(out)
	}
	return strings.Join(out, " ")
}

func digestReqs(rs []resolve.RequirementVersion) string {
	out := make([]string, len(rs))
	for i, r := range rs {
		out[i] = r.Name + "@" + r.Version + "{" + uni.TypeString(r.Type) + "}"
	}
	sort.Strings(out)
	return strings.Join(out, " ")
}

func (r *c18Recorder) begin(kind string, key resolve.VersionKey) (int, int, error) {
	t := r.sched().CurTask()
	r.ncalls[t]++
	if r.ncalls[t] > r.maxCall {
		if !r.sched().IsAborted() {
			r.sched().SetNote(t, noteCap, int64(r.sched().LiveTasks()))
		}
		r.sched().Abort()
	}
	if r.sched().IsAborted() {
		return t, -1, errBudget
	}
	r.perTask[t] = append(r.perTask[t], c18Call{task: t, kind: kind, key: key, call: r.base + r.sched().Stamp()})
	return t, len(r.perTask[t]) - 1, nil
}

func (r *c18Recorder) end(t, i int, err error, digest string) {
	c := &r.perTask[t][i]
	c.ret = r.base + r.sched().Stamp()
	c.faulted = r.svc.taskFired(t)
	switch {
	case err == nil:
		c.found = true
		c.digest = digest
	case errors.Is(err, resolve.ErrNotFound):
		c.notFound = true
	default:
		c.errText = err.Error()
	}
}

func (r *c18Recorder) Version(ctx context.Context, vk resolve.VersionKey) (resolve.Version, error) {
	t, i, err := r.begin("Version", vk)
	if err != nil {
		return resolve.Version{}, err
	}
	v, err := r.inner.Version(ctx, vk)
	r.end(t, i, err, digestVersions([]resolve.Version{v}, false))
	return v, err
}

func (r *c18Recorder) Versions(ctx context.Context, pk resolve.PackageKey) ([]resolve.Version, error) {
	t, i, err := r.begin("Versions", resolve.VersionKey{PackageKey: pk})
	if err != nil {
		return nil, err
	}
	vs, err := r.inner.Versions(ctx, pk)
	r.end(t, i, err, digestVersions(vs, true))
	return vs, err
}

func (r *c18Recorder) Requirements(ctx context.Context, vk resolve.VersionKey) ([]resolve.RequirementVersion, error) {
	t, i, err := r.begin("Requirements", vk)
	if err != nil {
		return nil, err
	}
	rs, err := r.inner.Requirements(ctx, vk)
	r.end(t, i, err, digestReqs(rs))
	return rs, err
}

func (r *c18Recorder) MatchingVersions(ctx context.Context, vk resolve.VersionKey) ([]resolve.Version, error) {
	t, i, err := r.begin("MatchingVersions", vk)
	if err != nil {
		return nil, err
	}
	vs, err := r.inner.MatchingVersions(ctx, vk)
	r.end(t, i, err, digestVersions(vs, false))
	return vs, err
}

// ---- the run ------------------------------------------------------------------

type c18Op struct {
	Kind  string // Resolve | Version | Versions | Requirements | MatchingVersions
	Key   resolve.VersionKey
	Gap   int64 // virtual time that passes before the operation starts (clock jump)
	dl    bool  // the resolution says of itself that it ran into a deadline
	sig   string
	desc  string
	pv    any
	nodes int
	// aborted-operation fault (see common.go): kind, the RPC it fires at,
	// the kind of RPC it is aimed at, whether it fired; invoke/return stamps
	Fault      int
	FaultAt    int
	FaultLabel int
	fired      bool
	start, end uint64
}

func (o *c18Op) String() string {
	s := o.Kind + " " + o.Key.Name + " " + o.Key.Version
	if o.Kind == "Versions" {
		s = "Versions " + o.Key.Name
	}
	if o.Fault != faultNone {
		what := "RPC"
		if o.FaultLabel != 0 {
			what = rpcKinds[o.FaultLabel] + " call"
		}
		s += fmt.Sprintf(" [fault: %s at %s %d]", faultNames[o.Fault], what, o.FaultAt)
	}
	return s
}

// expected answers of the model (reference LocalClient) for one call.
func c18Expect(ref *resolve.LocalClient, kind string, key resolve.VersionKey) (found bool, digest string) {
	ctx := context.Background()
	switch kind {
	case "Version":
		v, err := ref.Version(ctx, key)
		return err == nil, digestVersions([]resolve.Version{v}, false)
	case "Versions":
		vs, err := ref.Versions(ctx, key.PackageKey)
		return err == nil, digestVersions(vs, true)
	case "Requirements":
		rs, err := ref.Requirements(ctx, key)
		return err == nil, digestReqs(rs)
	default:
		vs, err := ref.MatchingVersions(ctx, key)
		return err == nil, digestVersions(vs, false)
	}
}

type linIn struct {
	reg bool
}
type linOut struct {
	found bool
	ok    bool // digest as expected (reads that found something)
}

var c18LinModel = porcupine.Model{
	Init: func() interface{} { return false },
	Step: func(state, input, output interface{}) (bool, interface{}) {
		st := state.(bool)
		in := input.(linIn)
		if in.reg {
			return true, true
		}
		out := output.(linOut)
		if out.found != st {
			return false, st
		}
		if out.found && !out.ok {
			return false, st
		}
		return true, st
	},
	Equal: func(a, b interface{}) bool { return a.(bool) == b.(bool) },
}

// RunC18 runs one simulated scenario for C18.
func RunC18(t *kernel.Tape, o Opts) *Result {
	res := &Result{Prop: "C18", Status: "ok"}
	serialStalled = false
	defer func() {
		if serialStalled {
			res.Status, res.Violations = "stalled", nil
		}
	}()
	maxp := 5
	if o.Tier == "thorough" {
		maxp = 7
	}
	svc := c18Gen(t, maxp)
	model, rootOf := c18Model(svc)
	ref := model.BuildClient(nil)
	var mentioned []string
	for _, pk := range model.AllPkgKeys() {
		if !strings.Contains(pk.Name, ">") {
			mentioned = append(mentioned, pk.Name)
		}
	}
	defined := map[string]bool{}
	for _, p := range svc.Pkgs {
		defined[p.Name] = true
	}
	service := newSimService(t, svc, mentioned)
	concurrent := t.Bool(2, 3)

	// key pools
	var roots []resolve.VersionKey
	var regular []resolve.VersionKey
	var bundled []resolve.VersionKey
	for pi, p := range model.Pkgs {
		for vi := range p.Vers {
			vk := model.VK(pi, vi)
			if strings.Contains(p.Name, ">") {
				bundled = append(bundled, vk)
			} else {
				regular = append(regular, vk)
				if pi < 6 {
					roots = append(roots, vk)
				}
			}
		}
	}
	// roots with bundles first in the pool (they create in-flight registration state)
	var broots []resolve.VersionKey
	for _, p := range svc.Pkgs {
		for _, v := range p.Vers {
			if len(v.Bundled) > 0 {
				broots = append(broots, resolve.VersionKey{PackageKey: resolve.PackageKey{System: resolve.NPM, Name: p.Name}, VersionType: resolve.Concrete, Version: v.V})
			}
		}
	}
	drawOp := func() *c18Op {
		k := t.Choose(8)
		switch {
		case k <= 2:
			if len(broots) > 0 && t.Bool(2, 3) {
				return &c18Op{Kind: "Resolve", Key: broots[t.Choose(len(broots))]}
			}
			return &c18Op{Kind: "Resolve", Key: roots[t.Choose(len(roots))]}
		case k == 3 && len(broots) > 0:
			if t.Bool(1, 2) {
				return &c18Op{Kind: "ScanBundles", Key: broots[t.Choose(len(broots))]}
			}
			return &c18Op{Kind: "Requirements", Key: broots[t.Choose(len(broots))]}
		case k <= 5 && len(bundled) > 0:
			b := bundled[t.Choose(len(bundled))]
			kind := []string{"Version", "Versions", "Requirements", "MatchingVersions"}[t.Choose(4)]
			key := b
			if kind == "MatchingVersions" {
				key.VersionType = resolve.Requirement
				if t.Bool(1, 4) {
					key.Version = "0.0.1" // not the bundled version
				}
			}
			return &c18Op{Kind: kind, Key: key}
		default:
			r := regular[t.Choose(len(regular))]
			kind := []string{"Version", "Versions", "Requirements", "MatchingVersions"}[t.Choose(4)]
			key := r
			if kind == "MatchingVersions" {
				key.VersionType = resolve.Requirement
				key.Version = []string{"*", "^1.0.0", "latest", r.Version}[t.Choose(4)]
			}
			if t.Bool(1, 8) {
				// something the service does not have: a version nobody
				// published, or a package nobody mentions
				if t.Bool(1, 2) {
					key.Name = "no-such-package"
				} else if kind != "MatchingVersions" {
					key.Version = "0.0.7"
				}
			}
			return &c18Op{Kind: kind, Key: key}
		}
	}
	var programs [][]*c18Op
	if !concurrent {
		n := t.Range(2, o.MaxOps)
		var ops []*c18Op
		for i := 0; i < n; i++ {
			ops = append(ops, drawOp())
		}
		programs = [][]*c18Op{ops}
	} else {
		nt := t.Range(2, o.MaxTasks)
		for i := 0; i < nt; i++ {
			n := t.Range(1, 4)
			var ops []*c18Op
			for j := 0; j < n; j++ {
				ops = append(ops, drawOp())
			}
			programs = append(programs, ops)
		}
	}
	// Aborted operations (a third of the runs): an RPC of the operation fails
	// (Unavailable), or the operation's context is cancelled, somewhere in the
	// middle. What such an operation returns is not judged, and a call that
	// fails while the fault is in effect is not an unexpected error; every call
	// that succeeds is judged as always, and so is everything that runs after
	// the faults have stopped.
	faulty := t.Bool(1, 3)
	if os.Getenv("VERIF_NO_ABORT_FAULTS") != "" {
		faulty = false // sensitivity experiments only: what would be seen without this fault family
	}
	var epilogue []*c18Op
	if faulty {
		for _, ops := range programs {
			for j, op := range ops {
				if !concurrent && j == len(ops)-1 {
					break // a history ends with a clean operation
				}
				if t.Bool(1, 2) {
					op.Fault = 1 + t.Choose(numFaultKinds-1)
					op.FaultAt = 1 + t.Choose(12)
					if op.Kind != "Resolve" {
						op.FaultAt = 1 + t.Choose(2)
					}
					if t.Bool(1, 2) {
						op.FaultLabel = 1 + t.Choose(len(rpcKinds)-1)
					}
					if j+1 < len(ops) && t.Bool(1, 2) {
						ops[j+1] = &c18Op{Kind: op.Kind, Key: op.Key} // the same again, unharmed
					}
				}
			}
		}
		if concurrent {
			for i, n := 0, t.Range(1, 3); i < n; i++ {
				epilogue = append(epilogue, drawOp())
			}
		}
	}
	var cfg kernel.Config
	if concurrent {
		cfg = drawSched(t, []string{"GetRequirements", "GetPackage", "GetVersion", "lock:", "op"})
	}
	// Time (see RunC05): RPCs of a third of the histories take virtual time
	// too, and in a third of all runs the clock jumps between operations.
	if !concurrent && t.Bool(1, 3) {
		cfg.Latency = 1 + t.Choose(kernel.NumLat-1)
	}
	if t.Bool(1, 3) {
		for _, ops := range programs {
			for _, op := range ops {
				if t.Bool(1, 2) {
					op.Gap = [...]int64{1e3, 1e6, 60e6, 3600e6, 30 * 86400e6}[t.Choose(5)]
				}
			}
		}
	}

	// Reference resolutions through the model universe (serial, fresh).
	ctx := context.Background()
	refSig := map[resolve.VersionKey]string{}
	refDesc := map[resolve.VersionKey]string{}
	refCalls := map[resolve.VersionKey]int{}
	for _, ops := range append(append([][]*c18Op(nil), programs...), epilogue) {
		for _, op := range ops {
			if op.Kind != "Resolve" {
				continue
			}
			if _, ok := refSig[op.Key]; ok {
				continue
			}
			bc := &boundedClient{inner: model.BuildClient(nil), max: 3000}
			g, err, pv := serialResolve(t, npm.NewResolver(bc), ctx, op.Key)
			if bc.over {
				res.Status = "budget"
				res.Config = "ref-budget"
				return res
			}
			if pv != nil {
				refSig[op.Key] = fmt.Sprintf("PANIC:%v", pv)
			} else {
				refSig[op.Key] = uni.Signature(g, err)
			}
			refCalls[op.Key] = bc.n
			refDesc[op.Key] = uni.Describe(g, err)
		}
	}

	// Live objects: one APIClient and one npm resolver shared by all tasks.
	ntasks := len(programs)
	s := kernel.NewSched(t, cfg)
	service.setSched(s)
	api := resolve.NewAPIClient(service)
	if faulty {
		service.enableFaults()
	}
	rec := &c18Recorder{inner: api, svc: service, s: s, perTask: make([][]c18Call, kernel.MaxTasks), ncalls: make([]int, kernel.MaxTasks), maxCall: 4000}
	resolver := npm.NewResolver(rec)
	phase := uint64(0)
	var runOp func(slot int, op *c18Op)
	fns := make([]func(*kernel.Task), ntasks)
	for i := range programs {
		i := i
		fns[i] = func(*kernel.Task) {
			for j, op := range programs[i] {
				if op.Gap > 0 {
					s.Sleep(op.Gap, "clock-jump")
				}
				s.Yield(kernel.KindOp, "op-start", false)
				s.SetNote(i, noteOp, int64(j+1))
				s.SetNote(i, noteFired, 0)
				runOp(i, op)
				s.Yield(kernel.KindOp, "op-end", false)
			}
		}
	}
	runOp = func(i int, op *c18Op) {
		{
			{
				rec.ncalls[i] = 0
				// every operation has a context of its own (a fault may cancel it)
				tctx, cancel := context.WithCancel(context.Background())
				defer cancel()
				if faulty {
					service.cancels[i] = cancel
					service.plan(i, op.Fault, op.FaultLabel, op.FaultAt, 2+op.FaultAt%3)
				}
				op.start = phase<<32 | rec.sched().Stamp()
				defer func() {
					op.fired = service.taskFired(i)
					service.plan(i, faultNone, 0, 0, 1)
					op.end = phase<<32 | rec.sched().Stamp()
				}()
				switch op.Kind {
				case "Resolve":
					g, err, pv := resolveOnce(resolver, tctx, op.Key)
					op.pv = pv
					if pv == nil {
						op.sig = uni.Signature(g, err)
						op.desc = uni.Describe(g, err)
						op.dl = endedByDeadline(g, err)
						if g != nil {
							op.nodes = len(g.Nodes)
						}
					}
				default:
					func() {
						defer func() {
							if x := recover(); x != nil {
								op.pv = x
							}
						}()
						switch op.Kind {
						case "Version":
							rec.Version(tctx, op.Key)
						case "Versions":
							rec.Versions(tctx, op.Key.PackageKey)
						case "Requirements":
							rec.Requirements(tctx, op.Key)
						case "MatchingVersions":
							rec.MatchingVersions(tctx, op.Key)
						case "ScanBundles":
							// read every bundled package of one root, one call each
							want := op.Key.Name + " " + op.Key.Version
							for _, b := range bundled {
								if rootOf[b.Name] != want {
									continue
								}
								rec.Version(tctx, b)
								mr := b
								mr.VersionType = resolve.Requirement
								rec.MatchingVersions(tctx, mr)
							}
						}
					}()
				}
			}
		}
	}
	okRun := s.Run(fns)
	if !okRun && s.Deadlock && s.CallersDone(ntasks) {
		// Every caller has returned; what is blocked for good are goroutines
		// the code under test started and left behind. That is no violation
		// of this property by itself, and the run is judged as usual.
		s.JoinCallers(ntasks)
		ids, _ := s.BlockedTasks()
		probe(res, "goroutines_left_blocked_for_good", len(ids))
		probe(res, "runs_judged_with_goroutines_left_behind", 1)
		okRun = true
	}
	res.Yields = s.Yields
	res.Switches = s.SwitchCount
	res.SimTimeUs = s.Now()
	res.SchedHash = fmt.Sprintf("%016x", s.Hash)
	mode := "history"
	if concurrent {
		mode = "concurrent"
	}
	res.Config = "npm-api/" + mode
	if !okRun {
		res.Status = "stalled"
		if s.Deadlock {
			res.Config = "npm-api/deadlock"
			// the tasks did not join: only kernel notes and what was fixed
			// before the fork may be read here
			if hang(res, s, ntasks, func(task int) bool { return s.Note(task, noteFired) != 0 }, func(task int) string {
				if j := int(s.Note(task, noteOp)); j > 0 && j <= len(programs[task]) {
					return fmt.Sprintf("task %d: %s", task, programs[task][j-1])
				}
				return fmt.Sprintf("task %d", task)
			}, "hang:npm-api") {
				res.Status = "hang"
			}
		}
		return res
	}
	if s.Foreign {
		res.Status = "foreign"
		return res
	}
	if s.Aborted || t.Over {
		res.Status = "budget"
		// an undisturbed resolution that reaches the cap on client calls as
		// the last live task, where the reference needed less than a
		// hundredth of it, does not terminate (see RunC05)
		for i := 0; i < ntasks && !t.Over; i++ {
			j := int(s.Note(i, noteOp))
			if s.Note(i, noteCap) != 1 || s.Note(i, noteFired) != 0 || j < 1 || j > len(programs[i]) {
				continue
			}
			if op := programs[i][j-1]; op.Kind == "Resolve" && refCalls[op.Key]*livelockFactor <= rec.maxCall {
				res.Status = "ok"
				res.Config = "npm-api/livelock"
				violate(res, "livelock", "livelock:npm-api", 0, "task %d: %s made more than %d client calls without returning; resolving the same data in a LocalClient needs %d", i, op, rec.maxCall, refCalls[op.Key])
			}
		}
		return res
	}
	// Once the faults have stopped: a few clean operations, one after the
	// other, on the same client and resolver.
	if len(epilogue) > 0 {
		es := kernel.NewSched(t, kernel.Config{Mode: kernel.ModeSerial})
		rec.base = s.Stamp()
		rec.setSched(es)
		service.setSched(es)
		phase = 1
		okE := es.Run([]func(*kernel.Task){func(*kernel.Task) {
			for _, op := range epilogue {
				runOp(0, op)
			}
		}})
		if !okE {
			res.Status = "stalled"
			return res
		}
		if es.Aborted || t.Over {
			res.Status = "budget"
			return res
		}
		res.Yields += es.Yields
		programs = append(programs, epilogue)
	}
	res.RaceSteps = s.Races()
	for _, ops := range programs[:ntasks] {
		for _, op := range ops {
			if op.Gap > 0 {
				fault(res, "clock_jumps_between_operations", 1)
			}
		}
	}
	probe(res, "virtual_timers_of_code_under_test", s.Timers)
	probe(res, "virtual_sleeps_of_code_under_test", s.Sleeps)
	fault(res, "reordered_completions", s.Reorders)
	fault(res, "rpc_preemptions", s.MidOpSwitch-s.LockPreempt)
	fault(res, "lock_point_preemptions", s.LockPreempt)
	if s.Now() >= 1000*1000 {
		fault(res, "straggler_runs", 1)
	}

	// Oracle: no panic; Resolve differential against the model universe.
	for i := ntasks; i < s.N(); i++ {
		if pv := s.TaskPanic(i); pv != nil {
			violate(res, "panic", "panic:spawned-goroutine", 0, "a goroutine started by the code under test panicked: %v", pv)
		}
	}
	probe(res, "goroutines_of_code_under_test", s.Spawned)
	probe(res, "resumed_after_all_tasks_blocked", s.Resumed)
	probe(res, "blocking_operations", s.BlockOps)
	probe(res, "selects_with_drawn_case_order", s.Selects)
	for i, ops := range programs {
		if i < ntasks {
			if pv := s.TaskPanic(i); pv != nil {
				violate(res, "panic", "panic:harness-task", 0, "task %d panicked outside an operation: %v", i, pv)
			}
		}
		for j, op := range ops {
			if op.fired {
				// an aborted operation: what it returned is its own business
				fault(res, "op_"+faultNames[op.Fault], 1)
				if op.pv != nil {
					probe(res, "aborted_op_panicked", 1)
				}
				continue
			}
			if op.pv != nil {
				violate(res, "panic", "panic:"+op.Kind, j, "task %d: %s panicked: %v", i, op, op.pv)
				continue
			}
			if op.Kind == "Resolve" {
				if op.nodes >= 2 {
					probe(res, "graphs_ge2_nodes", 1)
				}
				afterFault, overlapsErrors := false, false
				for _, xs := range programs {
					for _, x := range xs {
						if !x.fired || x == op {
							continue
						}
						if x.end < op.start {
							afterFault = true
						} else if x.start < op.end && x.Fault >= faultErrOnce {
							overlapsErrors = true
						}
					}
				}
				if overlapsErrors {
					// the service was failing calls while this resolution ran
					probe(res, "clean_op_overlapping_rpc_errors", 1)
					continue
				}
				if afterFault {
					probe(res, "clean_resolves_judged_after_an_aborted_op", 1)
				}
				if op.dl && kernel.TimersStarted() > 0 {
					// the code under test set itself a deadline and says so
					probe(res, "ops_ended_by_a_deadline_of_the_code_under_test", 1)
					continue
				}
				if op.sig != refSig[op.Key] {
					violate(res, "result-mismatch", "result-mismatch:api-vs-local", j, "task %d: %s through the APIClient differs from resolving the same data in a LocalClient.\n--- local:\n%s\n--- api:\n%s", i, op, refDesc[op.Key], op.desc)
				}
			}
		}
	}

	// Oracle: every recorded client call agrees with the model universe
	// (regular keys), and the reads of bundled keys are linearizable with
	// respect to the Requirements calls that register them.
	var all []c18Call
	for _, cs := range rec.perTask {
		all = append(all, cs...)
	}
	sort.Slice(all, func(i, j int) bool { return all[i].call < all[j].call })
	parts := map[string][]porcupine.Operation{}
	regBy := map[string]map[int]uint64{} // root -> task -> first return stamp of a registering call
	crossReads, earlyReads := 0, 0
	failedReg := map[string][]porcupine.Operation{} // root -> Requirements calls that failed under a fault
	for _, c := range all {
		if !c.found && c.faulted {
			// a call that did not succeed while a fault of its operation was in
			// effect (an error, or an absence the failing service did not deny)
			probe(res, "calls_failed_under_fault", 1)
			if c.kind == "Requirements" && !strings.Contains(c.key.Name, ">") {
				root := c.key.Name + " " + c.key.Version
				failedReg[root] = append(failedReg[root], porcupine.Operation{ClientId: c.task, Input: linIn{reg: true}, Call: int64(c.call), Output: linOut{}, Return: int64(c.ret)})
			}
			continue
		}
		if c.errText != "" && kernel.TimersStarted() > 0 && strings.Contains(c.errText, "eadline") {
			// the code under test set itself a deadline, it passed, and the
			// call says so: an honest failure, not judged
			probe(res, "calls_ended_by_a_deadline_of_the_code_under_test", 1)
			continue
		}
		if c.errText != "" {
			// An error seen by a caller whose own operation was not faulted,
			// while another task's RPCs were failing: a client that shares
			// in-flight calls between callers may hand it the other caller's
			// error. Not judged (the same rule as for whole resolutions).
			shared := false
			for ti, ops := range programs {
				for _, x := range ops {
					if ti != c.task && x.fired && x.Fault >= faultErrOnce && x.start>>32 == 0 && x.start < c.ret && c.call < x.end {
						shared = true
					}
				}
			}
			if shared {
				probe(res, "errors_while_another_tasks_rpcs_failed", 1)
				continue
			}
			violate(res, "model-mismatch", "model-mismatch:unexpected-error:"+c.kind, int(c.call), "%s(%s %s) returned an unexpected error: %s", c.kind, c.key.Name, c.key.Version, c.errText)
			continue
		}
		isBundle := strings.Contains(c.key.Name, ">")
		wantFound, wantDigest := c18Expect(ref, c.kind, c.key)
		if !isBundle {
			if !c.found && c.notFound && wantFound && !defined[c.key.Name] {
				// a package the service does not have: the in-memory client knows
				// it (without versions) because a requirement mentions it, the
				// API client truthfully reports not found
				probe(res, "dangling_package_lookups", 1)
				continue
			}
			if c.found != wantFound {
				violate(res, "model-mismatch", "model-mismatch:regular:"+c.kind+":found", int(c.call), "%s(%s %s): found=%v, the same data in a LocalClient gives found=%v", c.kind, c.key.Name, c.key.Version, c.found, wantFound)
			} else if c.found && c.digest != wantDigest {
				violate(res, "model-mismatch", "model-mismatch:regular:"+c.kind, int(c.call), "%s(%s %s) = %s\nthe same data in a LocalClient gives %s", c.kind, c.key.Name, c.key.Version, c.digest, wantDigest)
			}
			if c.kind == "Requirements" && c.found {
				root := c.key.Name + " " + c.key.Version
				parts[root] = append(parts[root], porcupine.Operation{ClientId: c.task, Input: linIn{reg: true}, Call: int64(c.call), Output: linOut{}, Return: int64(c.ret)})
				if regBy[root] == nil {
					regBy[root] = map[int]uint64{}
				}
				if _, ok := regBy[root][c.task]; !ok {
					regBy[root][c.task] = c.ret
				}
			}
			continue
		}
		root, known := rootOf[c.key.Name]
		if !known {
			// a mangled name the model does not know: must never be found
			if c.found {
				violate(res, "model-mismatch", "model-mismatch:bundle:unknown-found", int(c.call), "%s(%s) found a bundled package the service never listed", c.kind, c.key.Name)
			}
			continue
		}
		ok := !c.found || (wantFound && c.digest == wantDigest)
		if c.found && !ok {
			violate(res, "model-mismatch", "model-mismatch:bundle:"+c.kind, int(c.call), "%s(%s %s) = %s\nthe documented mapping gives %s (found=%v)", c.kind, c.key.Name, c.key.Version, c.digest, wantDigest, wantFound)
		}
		parts[root] = append(parts[root], porcupine.Operation{ClientId: c.task, Input: linIn{}, Call: int64(c.call), Output: linOut{found: c.found, ok: ok}, Return: int64(c.ret)})
		if c.found {
			other := false
			for tk, ret := range regBy[root] {
				if tk != c.task && ret < c.call {
					other = true
				}
			}
			_, self := regBy[root][c.task]
			if other && !self {
				crossReads++
			}
		} else {
			earlyReads++
		}
	}
	probe(res, "bundle_reads_registered_by_other_task", crossReads)
	probe(res, "bundle_reads_before_registration", earlyReads)
	probe(res, "client_calls", len(all))
	inconclusive := 0
	var roots2 []string
	for r := range parts {
		roots2 = append(roots2, r)
	}
	sort.Strings(roots2)
	for _, r := range roots2 {
		ops := parts[r]
		hasRead := false
		for _, op := range ops {
			if !op.Input.(linIn).reg {
				hasRead = true
			}
		}
		if !hasRead {
			continue
		}
		probe(res, "linearizability_checks", 1)
		verdict := porcupine.CheckOperationsTimeout(c18LinModel, ops, 30*time.Second)
		if fr := failedReg[r]; verdict == porcupine.Illegal && len(fr) > 0 {
			// A Requirements call that failed under a fault may or may not
			// have registered bundles: the history is legal if it is legal
			// with some subset of them taking effect.
			if len(fr) > 4 {
				verdict = porcupine.Unknown
			}
			for m := 1; m < 1<<len(fr) && verdict == porcupine.Illegal; m++ {
				with := append([]porcupine.Operation(nil), ops...)
				for b := range fr {
					if m&(1<<b) != 0 {
						with = append(with, fr[b])
					}
				}
				if v := porcupine.CheckOperationsTimeout(c18LinModel, with, 30*time.Second); v != porcupine.Illegal {
					verdict = v
					probe(res, "linearizable_only_with_a_failed_registration_taking_effect", 1)
				}
			}
		}
		switch verdict {
		case porcupine.Illegal:
			var hist []string
			for _, op := range ops {
				in := op.Input.(linIn)
				if in.reg {
					hist = append(hist, fmt.Sprintf("task%d Requirements(%s) [%d,%d]", op.ClientId, r, op.Call, op.Return))
				} else {
					out := op.Output.(linOut)
					hist = append(hist, fmt.Sprintf("task%d read-bundle found=%v value-ok=%v [%d,%d]", op.ClientId, out.found, out.ok, op.Call, op.Return))
				}
			}
			violate(res, "not-linearizable", "not-linearizable:bundle-registration", 0, "reads of the bundles of %s are not linearizable with respect to the Requirements calls that register them:\n%s", r, strings.Join(hist, "\n"))
		case porcupine.Unknown:
			inconclusive++
		}
	}
	probe(res, "linearizability_inconclusive", inconclusive)

	// Oracle: four-call consistency at quiescence, for every bundle of every
	// root whose requirements were requested; not-found for the others.
	fresh := context.Background()
	// quiescent: one caller, under a serial scheduler of its own (the client
	// may start goroutines)
	qs := kernel.NewSched(t, kernel.Config{Mode: kernel.ModeSerial})
	service.setSched(qs)
	service.plan(0, faultNone, 0, 0, 1)
	fourCalls := func(*kernel.Task) {
		for _, bvk := range bundled {
			root := rootOf[bvk.Name]
			_, registered := regBy[root]
			mreq := bvk
			mreq.VersionType = resolve.Requirement
			type call struct {
				kind string
				key  resolve.VersionKey
			}
			for _, c := range []call{{"Versions", resolve.VersionKey{PackageKey: bvk.PackageKey}}, {"Version", bvk}, {"Requirements", bvk}, {"MatchingVersions", mreq}} {
				var found bool
				var digest string
				var err error
				switch c.kind {
				case "Versions":
					var vs []resolve.Version
					vs, err = api.Versions(fresh, c.key.PackageKey)
					digest = digestVersions(vs, true)
				case "Version":
					var v resolve.Version
					v, err = api.Version(fresh, c.key)
					digest = digestVersions([]resolve.Version{v}, false)
				case "Requirements":
					var rs []resolve.RequirementVersion
					rs, err = api.Requirements(fresh, c.key)
					digest = digestReqs(rs)
				default:
					var vs []resolve.Version
					vs, err = api.MatchingVersions(fresh, c.key)
					digest = digestVersions(vs, false)
				}
				found = err == nil
				if err != nil && !errors.Is(err, resolve.ErrNotFound) {
					violate(res, "model-mismatch", "model-mismatch:four-call:error", 0, "%s(%s): %v", c.kind, c.key.Name, err)
					continue
				}
				if !registered {
					if found && len(failedReg[root]) > 0 {
						continue // a failed registration may have taken effect
					}
					if found {
						violate(res, "model-mismatch", "model-mismatch:four-call:found-unregistered", 0, "%s(%s) succeeds although the requirements of %s were never requested", c.kind, c.key.Name, root)
					}
					continue
				}
				_, want := c18Expect(ref, c.kind, c.key)
				if !found {
					violate(res, "model-mismatch", "model-mismatch:four-call:missing:"+c.kind, 0, "%s(%s %s) not found although the requirements of %s were requested", c.kind, c.key.Name, c.key.Version, root)
				} else if digest != want {
					violate(res, "model-mismatch", "model-mismatch:four-call:"+c.kind, 0, "%s(%s %s) = %s\nthe documented mapping gives %s", c.kind, c.key.Name, c.key.Version, digest, want)
				}
				probe(res, "four_call_checks", 1)
			}
		}
	}
	if !qs.Run([]func(*kernel.Task){fourCalls}) {
		res.Status, res.Violations = "stalled", nil
		return res
	}
	if qs.Aborted {
		res.Status, res.Violations = "budget", nil
		return res
	}

	overlap := false
	if concurrent {
		seen := map[resolve.VersionKey]int{}
		for i, ops := range programs {
			for _, op := range ops {
				if op.Kind == "Resolve" {
					if j, ok := seen[op.Key]; ok && j != i {
						overlap = true
					}
					seen[op.Key] = i
				}
			}
		}
	}
	res.NonTrivial = crossReads > 0 || (overlap && s.MidOpSwitch > 0) || (!concurrent && len(regBy) > 0 && len(bundled) > 0)
	var prog []string
	for _, ops := range programs {
		for _, op := range ops {
			prog = append(prog, op.String())
		}
		prog = append(prog, "|")
	}
	res.Distinct = hashStrings(model.SchemaText(), strings.Join(prog, ","), res.SchedHash)
	{
		var obs []string
		for _, ops := range programs {
			for _, op := range ops {
				obs = append(obs, op.sig)
			}
		}
		for _, c := range all {
			obs = append(obs, fmt.Sprintf("%s|%v|%v|%s|%s", c.kind, c.found, c.notFound, c.errText, c.digest))
		}
		res.Digest = hashStrings(obs...)
	}
	if len(res.Violations) > 0 || len(res.RaceSteps) > 0 || o.WantDetail {
		var ps [][]string
		for _, ops := range programs {
			var p []string
			for _, op := range ops {
				p = append(p, op.String())
			}
			ps = append(ps, p)
		}
		var sw []string
		for _, x := range s.Switches() {
			sw = append(sw, fmt.Sprintf("#%d task%d->task%d@%s", x.Step, x.From, x.To, x.Label))
		}
		scn := map[string]any{
			"service_universe":           svc,
			"model_universe_schema_text": model.SchemaText(),
			"config":                     mode,
			"task_programs":              ps,
			"schedule_switches":          sw,
		}
		if concurrent {
			scn["scheduler"] = fmt.Sprintf("mode=%s latency=%s target=%q", modeName(cfg.Mode), latName(cfg.Latency), cfg.Target)
		}
		res.Scenario = scn
	}
	return res
}
