package props

import (
	"fmt"
	"sort"
	"strconv"
	"strings"

	"deps.dev/util/resolve"
	"deps.dev/util/resolve/dep"
	"deps.dev/util/resolve/schema"
	"deps.dev/util/resolve/verifbridge"
	"deps.dev/util/resolve/version"
	"verif/sim/kernel"
	"verif/sim/uni"
)

// C19: dependency types and version attribute sets are values with a faithful
// text form. Seeded histories over handles, a value-semantics reference model
// checked after every step, text round trips through the schema parsers, and
// a forked phase in which clone and original are mutated by different tasks
// while other tasks read a shared value (race oracle).

var c19DepFlags = []dep.AttrKey{dep.Dev, dep.Opt, dep.Test}
var c19DepKeys = []dep.AttrKey{dep.XTest, dep.Framework, dep.Scope, dep.MavenClassifier, dep.MavenArtifactType,
	dep.MavenDependencyOrigin, dep.EnabledDependencies, dep.KnownAs, dep.MavenExclusions, dep.Environment, dep.Selector}
var c19VerFlags = []version.AttrKey{version.Blocked, version.Deleted, version.Error}
var c19VerKeys = []version.AttrKey{version.Redirect, version.Features, version.DerivedFrom, version.NativeLibrary,
	version.Registries, version.SupportedFrameworks, version.DependencyGroups, version.Ident, version.Created, version.Tags}

// Keys without a name. attr.Set holds "arbitrary uint8 keys" below 64 and a
// mask whose eight bits "may all be set"; dep and version declare only some
// of them (dep reserves -0x08 and -0x10 for future use). The value semantics
// and the order laws range over all of them; the text form has no spelling
// for an undeclared key, so handles holding one are left out of the text
// round trip. Drawn only in runs of the "unnamed keys" flavour.
var c19UnnamedFlags = []int{-0x08, -0x10, -0x20, -0x40}
var c19UnnamedKeys = []int{0, 12, 13, 31, 32, 33, 47, 48, 55, 56, 57, 58, 59, 60, 61, 62, 63}

// Values: empty, plain, spaced (single inner spaces), quoted/escaped, comma
// lists, non-ASCII. The schema grammar's own metacharacters (#, |, tab,
// newline, "@" and ": ") are outside the domain: they cannot be written in
// that grammar at all.
var c19Values = []string{
	"", "x", "peer", "a b", "one two three", `say "hi"`, `back\slash`, "a,b,c", "1.0",
	`python_version < "3"`, "é-ü", "'single'", `"`, "provided", "x", "tests", "%d{}[]", "0", " lead", "trail ", "two  spaces",
	"`raw`", "`", "`a b`", "$x", "-", "--flag", "*", "a/b", "C:\\dir", "100%", "~1.2", "^1", "[1,2)", "(,1.0]", "null", "true",
}

type c19Handle struct {
	id    int
	ver   bool // version.AttrSet (true) or dep.Type (false)
	dt    dep.Type
	va    version.AttrSet
	flags map[int]bool
	vals  map[int]string
	// provenance for the non-triviality rule
	cloneOf      int
	isClone      bool
	mutatedAfter bool // this handle or its clone partner was mutated after the clone
	partner      int
}

func (h *c19Handle) modelKey() string {
	var parts []string
	for k := range h.flags {
		parts = append(parts, fmt.Sprintf("f%d", k))
	}
	for k, v := range h.vals {
		parts = append(parts, fmt.Sprintf("k%d=%q", k, v))
	}
	sort.Strings(parts)
	return strings.Join(parts, ";")
}

func (h *c19Handle) kvs() []uni.KV {
	var out []uni.KV
	var ks []int
	for k := range h.flags {
		ks = append(ks, k)
	}
	sort.Sort(sort.Reverse(sort.IntSlice(ks)))
	for _, k := range ks {
		out = append(out, uni.KV{K: k})
	}
	ks = ks[:0]
	for k := range h.vals {
		ks = append(ks, k)
	}
	sort.Ints(ks)
	for _, k := range ks {
		out = append(out, uni.KV{K: k, V: h.vals[k]})
	}
	return out
}

func (h *c19Handle) hasUnnamed() bool {
	for _, k := range c19UnnamedFlags {
		if h.flags[k] {
			return true
		}
	}
	for _, k := range c19UnnamedKeys {
		if _, ok := h.vals[k]; ok {
			return true
		}
	}
	return false
}

// hasControl reports whether some value holds a control character: such
// values are values like any other for the set (Compare, Equal, Clone), but
// they are left out of the text round trip.
func (h *c19Handle) hasControl() bool {
	for _, v := range h.vals {
		for i := 0; i < len(v); i++ {
			if v[i] < 0x20 || v[i] == 0x7f {
				return true
			}
		}
	}
	return false
}

// c19Seps are characters an implementation might join or delimit values with.
var c19Seps = []string{"\x1f", "\x00", "\x1e", ",", ";", "=", " ", "\x01"}

func (h *c19Handle) set(k int, v string) {
	if k < 0 {
		h.flags[k] = true
		if h.ver {
			h.va.SetAttr(version.AttrKey(k), v)
		} else {
			h.dt.AddAttr(dep.AttrKey(k), v)
		}
		return
	}
	h.vals[k] = v
	if h.ver {
		h.va.SetAttr(version.AttrKey(k), v)
	} else {
		h.dt.AddAttr(dep.AttrKey(k), v)
	}
}

type c19State struct {
	unnamed bool // this run also draws undeclared keys
	res     *Result
	hs      []*c19Handle
	trace   []string
	step    int
}

func (s *c19State) bad(key, format string, args ...any) {
	violate(s.res, "model-mismatch", "model-mismatch:"+key, s.step, "step %d: %s\nhistory:\n%s", s.step, fmt.Sprintf(format, args...), strings.Join(s.trace, "\n"))
}

func kindName(ver bool) string {
	if ver {
		return "AttrSet"
	}
	return "Type"
}

// checkReads compares every accessor of one handle with the model.
func (s *c19State) checkReads(h *c19Handle) {
	kn := kindName(h.ver)
	if h.ver {
		for _, k := range c19VerFlags {
			_, ok := h.va.GetAttr(k)
			if ok != h.flags[int(k)] || h.va.HasAttr(k) != h.flags[int(k)] {
				s.bad(kn+":flag", "h%d: flag %v present=%v, model says %v", h.id, k, ok, h.flags[int(k)])
			}
		}
		for _, k := range c19VerKeys {
			v, ok := h.va.GetAttr(k)
			mv, mok := h.vals[int(k)]
			if ok != mok || v != mv || h.va.HasAttr(k) != mok {
				s.bad(kn+":value", "h%d: GetAttr(%v) = (%q,%v), model says (%q,%v)", h.id, k, v, ok, mv, mok)
			}
		}
		if s.unnamed {
			for _, k := range c19UnnamedFlags {
				if ok := h.va.HasAttr(version.AttrKey(k)); ok != h.flags[k] {
					s.bad(kn+":flag", "h%d: flag %d present=%v, model says %v", h.id, k, ok, h.flags[k])
				}
			}
			for _, k := range c19UnnamedKeys {
				v, ok := h.va.GetAttr(version.AttrKey(k))
				mv, mok := h.vals[k]
				if ok != mok || v != mv || h.va.HasAttr(version.AttrKey(k)) != mok {
					s.bad(kn+":value", "h%d: GetAttr(%d) = (%q,%v), model says (%q,%v)", h.id, k, v, ok, mv, mok)
				}
			}
		}
		if e := h.va.Empty(); e != (len(h.flags) == 0 && len(h.vals) == 0) {
			s.bad(kn+":empty", "h%d: Empty() = %v with model %s", h.id, e, h.modelKey())
		}
		// ForEachAttr: exactly the model's pairs, flags first, keys ascending.
		var got []string
		lastKey := -1000
		sorted := true
		h.va.ForEachAttr(func(k version.AttrKey, v string) {
			got = append(got, fmt.Sprintf("%d=%q", int(k), v))
			if int(k) > 0 {
				if int(k) <= lastKey {
					sorted = false
				}
				lastKey = int(k)
			} else if lastKey > 0 {
				sorted = false
			}
		})
		var want []string
		for k := range h.flags {
			want = append(want, fmt.Sprintf("%d=%q", k, ""))
		}
		for k, v := range h.vals {
			want = append(want, fmt.Sprintf("%d=%q", k, v))
		}
		g2 := append([]string(nil), got...)
		sort.Strings(g2)
		sort.Strings(want)
		if strings.Join(g2, ",") != strings.Join(want, ",") {
			s.bad(kn+":foreach", "h%d: ForEachAttr visited %v, model has %v", h.id, got, want)
		} else if !sorted {
			s.bad(kn+":foreach-order", "h%d: ForEachAttr order %v is not flags first then ascending keys", h.id, got)
		}
		return
	}
	for _, k := range c19DepFlags {
		_, ok := h.dt.GetAttr(k)
		if ok != h.flags[int(k)] || h.dt.HasAttr(k) != h.flags[int(k)] {
			s.bad(kn+":flag", "h%d: flag %v present=%v, model says %v", h.id, k, ok, h.flags[int(k)])
		}
	}
	for _, k := range c19DepKeys {
		v, ok := h.dt.GetAttr(k)
		mv, mok := h.vals[int(k)]
		if ok != mok || v != mv || h.dt.HasAttr(k) != mok {
			s.bad(kn+":value", "h%d: GetAttr(%v) = (%q,%v), model says (%q,%v)", h.id, k, v, ok, mv, mok)
		}
	}
	if s.unnamed {
		for _, k := range c19UnnamedFlags {
			if ok := h.dt.HasAttr(dep.AttrKey(k)); ok != h.flags[k] {
				s.bad(kn+":flag", "h%d: flag %d present=%v, model says %v", h.id, k, ok, h.flags[k])
			}
		}
		for _, k := range c19UnnamedKeys {
			v, ok := h.dt.GetAttr(dep.AttrKey(k))
			mv, mok := h.vals[k]
			if ok != mok || v != mv || h.dt.HasAttr(dep.AttrKey(k)) != mok {
				s.bad(kn+":value", "h%d: GetAttr(%d) = (%q,%v), model says (%q,%v)", h.id, k, v, ok, mv, mok)
			}
		}
	}
	if r := h.dt.IsRegular(); r != (len(h.flags) == 0 && len(h.vals) == 0) {
		s.bad(kn+":regular", "h%d: IsRegular() = %v with model %s", h.id, r, h.modelKey())
	}
}

func sign(x int) int {
	switch {
	case x < 0:
		return -1
	case x > 0:
		return 1
	}
	return 0
}

// checkOrder checks equality against the model for all pairs and the order
// laws for all triples of live handles of one kind.
func (s *c19State) checkOrder() {
	for _, ver := range []bool{false, true} {
		var hs []*c19Handle
		for _, h := range s.hs {
			if h.ver == ver {
				hs = append(hs, h)
			}
		}
		kn := kindName(ver)
		for _, a := range hs {
			for _, b := range hs {
				meq := a.modelKey() == b.modelKey()
				if ver {
					if eq := a.va.Equal(b.va); eq != meq {
						s.bad(kn+":equal", "h%d.Equal(h%d) = %v but the model sets are %s and %s", a.id, b.id, eq, a.modelKey(), b.modelKey())
					}
					if meq && a.va.String() != b.va.String() {
						s.bad(kn+":string", "equal sets h%d and h%d print differently: %s vs %s", a.id, b.id, a.va.String(), b.va.String())
					}
					continue
				}
				c := a.dt.Compare(b.dt)
				if (c == 0) != meq || a.dt.Equal(b.dt) != meq {
					s.bad(kn+":equal", "h%d.Compare(h%d) = %d, Equal = %v, but the model sets are %s and %s", a.id, b.id, c, a.dt.Equal(b.dt), a.modelKey(), b.modelKey())
				}
				if sign(c) != -sign(b.dt.Compare(a.dt)) {
					s.bad(kn+":antisymmetry", "h%d.Compare(h%d) = %d but the reverse is %d", a.id, b.id, c, b.dt.Compare(a.dt))
				}
				if meq && a.dt.String() != b.dt.String() {
					s.bad(kn+":string", "equal types h%d and h%d print differently: %s vs %s", a.id, b.id, a.dt.String(), b.dt.String())
				}
			}
		}
		if ver {
			continue
		}
		for _, a := range hs {
			for _, b := range hs {
				ab := sign(a.dt.Compare(b.dt))
				for _, c := range hs {
					bc := sign(b.dt.Compare(c.dt))
					ac := sign(a.dt.Compare(c.dt))
					if ab <= 0 && bc <= 0 && ac > 0 {
						s.bad(kn+":transitivity", "h%d<=h%d and h%d<=h%d but h%d>h%d (%s / %s / %s)", a.id, b.id, b.id, c.id, a.id, c.id, a.modelKey(), b.modelKey(), c.modelKey())
					}
					if ab == 0 && bc != ac {
						s.bad(kn+":congruence", "h%d==h%d but they compare differently against h%d", a.id, b.id, c.id)
					}
				}
			}
		}
	}
}

// roundTrip writes the handle in the schema syntax and parses it back.
func (s *c19State) roundTrip(h *c19Handle) {
	if h.hasUnnamed() || h.hasControl() {
		return // no spelling in the text form
	}
	kvs := h.kvs()
	if h.ver {
		spec := uni.Spec{Sys: resolve.NPM, Pkgs: []uni.Pkg{{Name: "pkg", Vers: []uni.Ver{{V: "1.0.0", Attrs: kvs}}}}}
		text := spec.SchemaTextStyle(s.step % 3)
		sc, err := schema.New(text, resolve.NPM)
		if err != nil || len(sc.Packages) != 1 || len(sc.Packages[0].Versions) != 1 {
			s.bad("AttrSet:text-parse", "schema.New failed on %q: %v", text, err)
			return
		}
		back := sc.Packages[0].Versions[0].Attr
		if !back.Equal(h.va) || uni.AttrString(back) != uni.AttrString(h.va) {
			s.bad("AttrSet:text-roundtrip", "h%d %s written as %q parses back as %s", h.id, uni.AttrString(h.va), text, uni.AttrString(back))
		} else {
			// What a parser returns belongs to its caller: scribble on it, then
			// parse the same text again - it must still denote the same set.
			s.scribbleVA(&back, h)
			if sc, err := schema.New(text, resolve.NPM); err != nil || len(sc.Packages) != 1 || len(sc.Packages[0].Versions) != 1 {
				s.bad("AttrSet:text-reparse", "schema.New failed on %q the second time: %v", text, err)
			} else if again := sc.Packages[0].Versions[0].Attr; !again.Equal(h.va) || uni.AttrString(again) != uni.AttrString(h.va) {
				s.bad("AttrSet:text-reparse", "h%d %s written as %q parsed back correctly once; after the caller changed the set it got, the same text parses as %s", h.id, uni.AttrString(h.va), text, uni.AttrString(again))
			}
		}
		// The repository's own writer for the inline form (versiontest.String,
		// "compatible with ParseString: for any given dt,
		// dt.Equal(Must(ParseString(String(dt))))"), reached through the
		// overlay's bridge package.
		own := verifbridge.VersionAttrString(h.va)
		if s.step%2 == 1 {
			// Parsing is a function of the text alone: on odd steps the
			// "confusable twin" of the text (the words of a quoted value
			// written as separate tokens - another set, or no set at all) is
			// parsed first; what it means is of no interest here.
			if tw := twinText(kvs, true); tw != "" {
				verifbridge.VersionAttrParse(tw)
				probe(s.res, "confusable_twin_texts_parsed_first", 1)
			}
		}
		back2, err := verifbridge.VersionAttrParse(own)
		if err != nil {
			s.bad("AttrSet:repo-writer-parse", "h%d %s: versiontest.String wrote %q, which versiontest.ParseString rejects: %v", h.id, uni.AttrString(h.va), own, err)
		} else if !back2.Equal(h.va) || uni.AttrString(back2) != uni.AttrString(h.va) {
			s.bad("AttrSet:repo-writer-roundtrip", "h%d %s: versiontest.String wrote %q, which parses back as %s", h.id, uni.AttrString(h.va), own, uni.AttrString(back2))
		} else {
			s.scribbleVA(&back2, h)
			if again, err := verifbridge.VersionAttrParse(own); err != nil || !again.Equal(h.va) || uni.AttrString(again) != uni.AttrString(h.va) {
				s.bad("AttrSet:repo-writer-reparse", "h%d %s: %q parsed back correctly once; after the caller changed the set it got, the same text parses as %s (%v)", h.id, uni.AttrString(h.va), own, uni.AttrString(again), err)
			} else if s.step%4 == 2 {
				// a set born in the parser takes the handle's place: the rest of
				// the history (clones, changes, comparisons) acts on it
				h.va = again
				probe(s.res, "parsed_values_adopted_as_handles", 1)
			}
		}
		// and as the prefix of a version line of a universe
		text2 := "pkg\n\t"
		if own != "" {
			text2 += own + "|"
		}
		text2 += "1.0.0\n"
		if sc2, err := schema.New(text2, resolve.NPM); err != nil || len(sc2.Packages) != 1 || len(sc2.Packages[0].Versions) != 1 {
			s.bad("AttrSet:repo-writer-schema-parse", "h%d %s: schema.New failed on %q: %v", h.id, uni.AttrString(h.va), text2, err)
		} else if b3 := sc2.Packages[0].Versions[0].Attr; !b3.Equal(h.va) {
			s.bad("AttrSet:repo-writer-schema-roundtrip", "h%d %s written by versiontest.String as %q parses back as %s", h.id, uni.AttrString(h.va), text2, uni.AttrString(b3))
		}
		return
	}
	// (a) as the type of an import line of a universe
	uni.DepTypeRotate = s.step
	defer func() { uni.DepTypeRotate = 0 }()
	spec := uni.Spec{Sys: resolve.NPM, Pkgs: []uni.Pkg{{Name: "pkg", Vers: []uni.Ver{{V: "1.0.0", Reqs: []uni.Req{{Name: "target", Req: "1", Type: kvs}}}}}}}
	text := spec.SchemaText()
	sc, err := schema.New(text, resolve.NPM)
	if err != nil || len(sc.Packages) != 1 || len(sc.Packages[0].Versions) != 1 || len(sc.Packages[0].Versions[0].Requirements) != 1 {
		s.bad("Type:text-parse", "schema.New failed on %q: %v", text, err)
		return
	}
	back := sc.Packages[0].Versions[0].Requirements[0]
	if back.Name != "target" || !back.Type.Equal(h.dt) || uni.TypeString(back.Type) != uni.TypeString(h.dt) {
		s.bad("Type:text-roundtrip", "h%d %s written as %q parses back as %s@%s %s", h.id, uni.TypeString(h.dt), text, back.Name, back.Version, uni.TypeString(back.Type))
	} else {
		s.scribbleDT(&back.Type, h)
		if sc, err := schema.New(text, resolve.NPM); err != nil || len(sc.Packages) != 1 || len(sc.Packages[0].Versions) != 1 || len(sc.Packages[0].Versions[0].Requirements) != 1 {
			s.bad("Type:text-reparse", "schema.New failed on %q the second time: %v", text, err)
		} else if again := sc.Packages[0].Versions[0].Requirements[0].Type; !again.Equal(h.dt) || uni.TypeString(again) != uni.TypeString(h.dt) {
			s.bad("Type:text-reparse", "h%d %s written as %q parsed back correctly once; after the caller changed the type it got, the same text parses as %s", h.id, uni.TypeString(h.dt), text, uni.TypeString(again))
		}
	}
	// (b) as the type of a graph edge
	gt := "root 1.0.0\n\t"
	if dt := uni.DepTypeText(kvs); dt != "" {
		gt += dt + " | "
	}
	gt += "target@1 2.0.0\n"
	if s.step%2 == 1 {
		if tw := twinText(kvs, false); tw != "" {
			schema.ParseResolve("root 1.0.0\n\t"+tw+" | target@1 2.0.0\n", resolve.NPM)
			probe(s.res, "confusable_twin_texts_parsed_first", 1)
		}
	}
	g, err := schema.ParseResolve(gt, resolve.NPM)
	if err != nil || len(g.Edges) != 1 {
		s.bad("Type:graph-text-parse", "schema.ParseResolve failed on %q: %v", gt, err)
		return
	}
	if et := g.Edges[0].Type; !et.Equal(h.dt) || uni.TypeString(et) != uni.TypeString(h.dt) {
		s.bad("Type:graph-text-roundtrip", "h%d %s written as %q parses back as %s", h.id, uni.TypeString(h.dt), gt, uni.TypeString(et))
	} else {
		s.scribbleDT(&g.Edges[0].Type, h)
		if g2, err := schema.ParseResolve(gt, resolve.NPM); err != nil || len(g2.Edges) != 1 {
			s.bad("Type:graph-text-reparse", "schema.ParseResolve failed on %q the second time: %v", gt, err)
		} else if again := g2.Edges[0].Type; !again.Equal(h.dt) || uni.TypeString(again) != uni.TypeString(h.dt) {
			s.bad("Type:graph-text-reparse", "h%d %s written as %q parsed back correctly once; after the caller changed the type it got, the same text parses as %s", h.id, uni.TypeString(h.dt), gt, uni.TypeString(again))
		} else if s.step%4 == 2 {
			h.dt = again
			probe(s.res, "parsed_values_adopted_as_handles", 1)
		}
	}
}

// scribbleVA / scribbleDT change a set the parser handed out (every valued key
// it holds gets another value, one more key is set): the caller's right, and
// of no consequence for anybody else.
func (s *c19State) scribbleVA(a *version.AttrSet, h *c19Handle) {
	for _, k := range sortedValKeys(h.vals) {
		a.SetAttr(version.AttrKey(k), "scribbled over")
	}
	a.SetAttr(version.Tags, "scribbled")
	probe(s.res, "parsed_values_changed_before_reparsing", 1)
}

func (s *c19State) scribbleDT(d *dep.Type, h *c19Handle) {
	for _, k := range sortedValKeys(h.vals) {
		d.AddAttr(dep.AttrKey(k), "scribbled over")
	}
	d.AddAttr(dep.Scope, "scribbled")
	probe(s.res, "parsed_values_changed_before_reparsing", 1)
}

// twinText writes the set like the text form does, except that a value of
// several plain words is written without its quotes: a different text, which
// denotes another set or none. Empty if the set has no such value.
func twinText(kvs []uni.KV, ver bool) string {
	var items []string
	twin := false
	for _, kv := range kvs {
		var name string
		flag := kv.K < 0
		if ver {
			name = strings.ToLower(version.AttrKey(kv.K).String())
		} else {
			name = strings.ToLower(dep.AttrKey(kv.K).String())
			flag = flag || dep.AttrKey(kv.K) == dep.Selector
		}
		if flag {
			items = append(items, name)
			continue
		}
		ws := strings.Split(kv.V, " ")
		plain := len(ws) > 1
		for _, w := range ws {
			if w == "" || strings.ContainsAny(w, "\"`\\|#@") {
				plain = false
			}
		}
		if plain && !twin {
			twin = true
			items = append(items, name+" "+kv.V)
		} else if kv.V == "" || strings.ContainsAny(kv.V, " \"`\\") {
			items = append(items, name+" "+strconv.Quote(kv.V))
		} else {
			items = append(items, name+" "+kv.V)
		}
	}
	if !twin {
		return ""
	}
	return strings.Join(items, " ")
}

var c19Atoms = []string{"a", "b1", `"`, `\\`, "'", "=", "<", "3.7", "é", ",", "x-y", "(", "%", "$",
	"`", "~", "!", "*", "?", "[", "]", "{", "}", "&", "+", "^", "/", ";", ">", "-", "_", ".", "0", "A", "世",
	// words that are also names of flags and keys of the text form
	"dev", "opt", "test", "scope", "knownas", "selector", "environment", "Dev", "blocked", "tags", "registries"}

// c19Tails are ends of values that, read as separate tokens, would be a flag
// or a key with its value.
var c19Tails = []string{"dev", "opt", "test", "selector", "scope peer", "knownas a", "environment os", "dev opt", "blocked", "tags latest"}

// drawValue draws either a fixed value or one composed of 1-4 words of 1-3
// atoms each (quotes, backslashes, punctuation, non-ASCII), joined by single
// spaces, occasionally with a leading, trailing or doubled space.
func drawValue(t *kernel.Tape) string {
	if !t.Bool(1, 3) {
		return c19Values[t.Choose(len(c19Values))]
	}
	nw := 1 + t.Choose(4)
	var words []string
	for i := 0; i < nw; i++ {
		var w string
		for j, na := 0, 1+t.Choose(3); j < na; j++ {
			w += c19Atoms[t.Choose(len(c19Atoms))]
		}
		words = append(words, w)
	}
	v := strings.Join(words, " ")
	if t.Bool(1, 6) {
		// a value whose tail reads like further items of the text form
		v = words[0] + " " + c19Tails[t.Choose(len(c19Tails))]
	}
	switch t.Choose(12) {
	case 9:
		v = " " + v
	case 10:
		v += " "
	case 11:
		v = strings.Replace(v, " ", "  ", 1)
	}
	return v
}

func (s *c19State) drawKV(t *kernel.Tape, ver bool) (int, string) {
	if s.unnamed && t.Bool(1, 3) {
		if t.Bool(1, 4) {
			return c19UnnamedFlags[t.Choose(len(c19UnnamedFlags))], ""
		}
		return c19UnnamedKeys[t.Choose(len(c19UnnamedKeys))], drawValue(t)
	}
	if t.Bool(1, 4) {
		if ver {
			return int(c19VerFlags[t.Choose(len(c19VerFlags))]), ""
		}
		return int(c19DepFlags[t.Choose(len(c19DepFlags))]), ""
	}
	v := drawValue(t)
	if ver {
		return int(c19VerKeys[t.Choose(len(c19VerKeys))]), v
	}
	k := c19DepKeys[t.Choose(len(c19DepKeys))]
	if k == dep.Selector {
		v = "" // valueless by design
	}
	return int(k), v
}

func sortedValKeys(m map[int]string) []int {
	ks := make([]int, 0, len(m))
	for k := range m {
		ks = append(ks, k)
	}
	sort.Ints(ks)
	return ks
}

func (s *c19State) newHandle(ver bool) *c19Handle {
	h := &c19Handle{id: len(s.hs), ver: ver, flags: map[int]bool{}, vals: map[int]string{}, partner: -1}
	s.hs = append(s.hs, h)
	return h
}

func (s *c19State) clone(src *c19Handle) *c19Handle {
	h := s.newHandle(src.ver)
	if src.ver {
		h.va = src.va.Clone()
	} else {
		h.dt = src.dt.Clone()
	}
	for k := range src.flags {
		h.flags[k] = true
	}
	for k, v := range src.vals {
		h.vals[k] = v
	}
	h.isClone, h.cloneOf = true, src.id
	h.partner, src.partner = src.id, h.id
	return h
}

// RunC19 runs one history (plus forked phase) for C19.
func RunC19(t *kernel.Tape, o Opts) *Result {
	res := &Result{Prop: "C19", Status: "ok", Config: "history"}
	s := &c19State{res: res}
	nops := t.Range(3, 40)
	s.unnamed = t.Bool(1, 5)
	if s.unnamed {
		fault(res, "unnamed_key_runs", 1)
	}
	clones, mutAfterClone, cmpAfter := 0, 0, 0
	for step := 0; step < nops && len(res.Violations) == 0; step++ {
		s.step = step
		op := t.Choose(6)
		if len(s.hs) == 0 || (op == 0 && len(s.hs) < 8) {
			ver := t.Bool(1, 2)
			h := s.newHandle(ver)
			if !ver {
				// NewType(flags...)
				var fl []dep.AttrKey
				for _, f := range c19DepFlags {
					if t.Bool(1, 4) {
						fl = append(fl, f)
						h.flags[int(f)] = true
					}
				}
				h.dt = dep.NewType(fl...)
				s.trace = append(s.trace, fmt.Sprintf("%d: h%d = dep.NewType(%v)", step, h.id, fl))
			} else {
				s.trace = append(s.trace, fmt.Sprintf("%d: h%d = version.AttrSet{}", step, h.id))
			}
		} else if op == 1 && len(s.hs) < 8 {
			src := s.hs[t.Choose(len(s.hs))]
			h := s.clone(src)
			clones++
			s.trace = append(s.trace, fmt.Sprintf("%d: h%d = h%d.Clone()", step, h.id, src.id))
			// now and then the clone gets two of its values exchanged: the same
			// keys and the same multiset of values, differently attached
			if ks := sortedValKeys(h.vals); len(ks) >= 2 && t.Bool(1, 3) {
				a := t.Choose(len(ks))
				b := (a + 1 + t.Choose(len(ks)-1)) % len(ks)
				va, vb := h.vals[ks[a]], h.vals[ks[b]]
				if va != vb && (h.ver || (dep.AttrKey(ks[a]) != dep.Selector && dep.AttrKey(ks[b]) != dep.Selector)) {
					h.set(ks[a], vb)
					h.set(ks[b], va)
					h.mutatedAfter, src.mutatedAfter = true, true
					mutAfterClone++
					fault(res, "values_exchanged_between_keys", 1)
					s.trace = append(s.trace, fmt.Sprintf("%d: h%d: values of keys %d and %d exchanged", step, h.id, ks[a], ks[b]))
				}
			}
			// or original and clone get the same characters cut differently
			// into the values of two neighbouring keys: (v1+sep+w, v2) here,
			// (v1, w+sep+v2) there - equal only for an implementation that
			// compares some joined form of the values
			if ks := sortedValKeys(h.vals); len(ks) >= 2 && t.Bool(1, 4) {
				a := t.Choose(len(ks) - 1)
				k1, k2 := ks[a], ks[a+1]
				sep := c19Seps[t.Choose(len(c19Seps))]
				w := [...]string{"y", "", "w w", "z"}[t.Choose(4)]
				if h.ver || (dep.AttrKey(k1) != dep.Selector && dep.AttrKey(k2) != dep.Selector) {
					v1, v2 := h.vals[k1], h.vals[k2]
					src.set(k1, v1+sep+w)
					src.set(k2, v2)
					h.set(k1, v1)
					h.set(k2, w+sep+v2)
					h.mutatedAfter, src.mutatedAfter = true, true
					mutAfterClone++
					fault(res, "value_boundaries_shifted_between_neighbouring_keys", 1)
					s.trace = append(s.trace, fmt.Sprintf("%d: h%d keys %d,%d = (%q, %q); h%d = (%q, %q)", step, src.id, k1, k2, v1+sep+w, v2, h.id, v1, w+sep+v2))
				}
			}
		} else {
			h := s.hs[t.Choose(len(s.hs))]
			k, v := s.drawKV(t, h.ver)
			// a value already in use somewhere, possibly under another key
			if k >= 0 && v != "" && t.Bool(1, 5) {
				src := s.hs[t.Choose(len(s.hs))]
				if ks := sortedValKeys(src.vals); len(ks) > 0 {
					v = src.vals[ks[t.Choose(len(ks))]]
					fault(res, "values_reused_under_another_key", 1)
				}
			}
			h.set(k, v)
			if h.partner >= 0 {
				h.mutatedAfter = true
				s.hs[h.partner].mutatedAfter = true
				mutAfterClone++
			}
			name := ""
			if h.ver {
				name = version.AttrKey(k).String()
			} else {
				name = dep.AttrKey(k).String()
			}
			s.trace = append(s.trace, fmt.Sprintf("%d: h%d.set(%s, %q)", step, h.id, name, v))
		}
		for _, h := range s.hs {
			s.checkReads(h)
		}
		s.checkOrder()
		for _, h := range s.hs {
			if h.mutatedAfter {
				cmpAfter++
				break
			}
		}
		// text round trip of one handle per step (all at the end)
		s.roundTrip(s.hs[t.Choose(len(s.hs))])
	}
	if len(res.Violations) == 0 {
		for _, h := range s.hs {
			s.roundTrip(h)
		}
	}

	// Forked phase: clone and original mutated by different tasks; readers on a
	// shared third value. Only the race oracle and the model can object.
	forked := false
	if len(res.Violations) == 0 && len(s.hs) > 0 && t.Bool(1, 2) {
		forked = true
		res.Config = "history+fork"
		orig := s.hs[t.Choose(len(s.hs))]
		s.step = nops
		cl := s.clone(orig)
		shared := s.clone(orig) // read-only from now on
		s.trace = append(s.trace, fmt.Sprintf("fork: task0 mutates h%d, task1 mutates its clone h%d, readers read h%d", orig.id, cl.id, shared.id))
		type mut struct {
			k int
			v string
		}
		draw := func(n int, ver bool) []mut {
			var ms []mut
			for i := 0; i < n; i++ {
				k, v := s.drawKV(t, ver)
				ms = append(ms, mut{k, v})
			}
			return ms
		}
		m0, m1 := draw(t.Range(1, 4), orig.ver), draw(t.Range(1, 4), orig.ver)
		nread := t.Range(1, 3)
		cfg := drawSched(t, []string{"op"})
		sch := kernel.NewSched(t, cfg)
		var fns []func(*kernel.Task)
		mutator := func(h *c19Handle, ms []mut) func(*kernel.Task) {
			return func(*kernel.Task) {
				for _, m := range ms {
					sch.Yield(kernel.KindOp, "op-mutate", true)
					h.set(m.k, m.v)
				}
			}
		}
		fns = append(fns, mutator(orig, m0), mutator(cl, m1))
		readOut := make([]string, nread)
		for r := 0; r < nread; r++ {
			r := r
			fns = append(fns, func(*kernel.Task) {
				var sb strings.Builder
				for i := 0; i < 3; i++ {
					sch.Yield(kernel.KindOp, "op-read", true)
					if shared.ver {
						sb.WriteString(shared.va.String())
						c := shared.va.Clone()
						fmt.Fprint(&sb, shared.va.Equal(c), c.Empty())
						for _, k := range c19VerKeys {
							v, _ := shared.va.GetAttr(k)
							sb.WriteString(v)
						}
					} else {
						sb.WriteString(shared.dt.String())
						c := shared.dt.Clone()
						fmt.Fprint(&sb, shared.dt.Compare(c), c.IsRegular())
						for _, k := range c19DepKeys {
							v, _ := shared.dt.GetAttr(k)
							sb.WriteString(v)
						}
					}
				}
				readOut[r] = sb.String()
			})
		}
		ok := sch.Run(fns)
		res.Yields += sch.Yields
		res.Switches = sch.SwitchCount
		res.SchedHash = fmt.Sprintf("%016x", sch.Hash)
		if !ok {
			res.Status = "stalled"
			return res
		}
		fault(res, "fork_preemptions", sch.SwitchCount)
		for i := 0; i < len(fns); i++ {
			if pv := sch.TaskPanic(i); pv != nil {
				violate(res, "panic", "panic:fork", nops, "task %d panicked: %v", i, pv)
			}
		}
		res.RaceSteps = sch.Races()
		for _, h := range []*c19Handle{orig, cl, shared} {
			s.checkReads(h)
		}
		s.checkOrder()
		for r := 1; r < nread; r++ {
			if readOut[r] != readOut[0] {
				s.bad("fork:reader", "two readers of the same unmodified value saw different things")
			}
		}
		mutAfterClone++
		cmpAfter++
	}
	fault(res, "clones", clones)
	fault(res, "mutations_after_clone", mutAfterClone)
	probe(res, "handles", len(s.hs))
	if forked {
		probe(res, "forked_phases", 1)
	}
	res.NonTrivial = (clones > 0 || forked) && mutAfterClone > 0 && cmpAfter > 0
	res.Yields += len(s.trace)
	res.Distinct = hashStrings(append(append([]string(nil), s.trace...), res.SchedHash)...)
	{
		obs := append([]string(nil), s.trace...)
		for _, h := range s.hs {
			if h.ver {
				obs = append(obs, uni.AttrString(h.va), h.va.String())
			} else {
				obs = append(obs, uni.TypeString(h.dt), h.dt.String())
			}
		}
		res.Digest = hashStrings(obs...)
	}
	if len(res.Violations) > 0 || len(res.RaceSteps) > 0 || o.WantDetail {
		res.Scenario = map[string]any{"history": s.trace}
	}
	return res
}
