package props

import "verif/sim/kernel"

func RunC18(t *kernel.Tape, o Opts) *Result { return &Result{Prop: "C18", Status: "ok"} }
