package uni

import (
	"fmt"
	"os"
	"path/filepath"
	"sort"
	"strconv"
	"strings"

	"deps.dev/util/resolve"
	"deps.dev/util/resolve/dep"
	"deps.dev/util/resolve/schema"
	"deps.dev/util/resolve/version"
)

var depFlag = map[dep.AttrKey]bool{dep.Dev: true, dep.Opt: true, dep.Test: true, dep.Selector: true}
var verFlag = map[version.AttrKey]bool{version.Blocked: true, version.Deleted: true, version.Error: true}

func needsQuote(v string) bool {
	if v == "" {
		return true
	}
	for i := 0; i < len(v); i++ {
		c := v[i]
		if c <= ' ' || c == '"' || c == '\\' || c == '`' || c >= 0x7f {
			return true
		}
	}
	return false
}

// quoteFields quotes v for the dependency-type syntax, whose parser splits the
// line into whitespace-separated fields before it re-joins a quoted value
// with single spaces: a space that is leading, trailing or follows another
// space is therefore written as the escape \x20, which the parser's
// strconv.Unquote turns back into a space.
func quoteFields(v string) string {
	q := strconv.Quote(v)
	inner := q[1 : len(q)-1]
	// The parser takes a field ending in \" for an escaped quote, so a value
	// that ends in a backslash gets that backslash written as \x5c.
	if strings.HasSuffix(v, "\\") {
		inner = inner[:len(inner)-2] + `\x5c`
	}
	var sb strings.Builder
	sb.WriteByte('"')
	for i := 0; i < len(inner); i++ {
		c := inner[i]
		if c == ' ' && (i == 0 || i == len(inner)-1 || inner[i-1] == ' ') {
			sb.WriteString(`\x20`)
			continue
		}
		sb.WriteByte(c)
	}
	sb.WriteByte('"')
	return sb.String()
}

// DepTypeText writes a dep.Type in the space-separated key/value syntax the
// schema's parsers read ("opt scope peer knownas \"a b\"").
func DepTypeText(kvs []KV) string {
	var items []string
	for _, kv := range kvs {
		k := dep.AttrKey(kv.K)
		item := strings.ToLower(k.String())
		if !depFlag[k] {
			if needsQuote(kv.V) {
				item += " " + quoteFields(kv.V)
			} else {
				item += " " + kv.V
			}
		}
		items = append(items, item)
	}
	// The items of a type may be written in any order; DepTypeRotate picks
	// one (a flag before, between or after the valued attributes).
	if n := len(items); n > 1 && DepTypeRotate > 0 {
		r := DepTypeRotate % n
		items = append(append([]string(nil), items[r:]...), items[:r]...)
	}
	return strings.Join(items, " ")
}

// DepTypeRotate rotates the order in which DepTypeText writes the flags and
// attributes of a type (0: flags first, then keys in key order).
var DepTypeRotate int

// SchemaText renders the spec in the schema grammar: flag attributes of a
// version go in the "flags|version" prefix, valued attributes on ATTR: lines.
func (s *Spec) SchemaText() string { return s.SchemaTextStyle(0) }

func simpleToken(v string) bool {
	if v == "" {
		return false
	}
	for i := 0; i < len(v); i++ {
		c := v[i]
		if c <= ' ' || c == '"' || c == '`' || c == '|' || c == '#' || c == '\\' || c >= 0x7f {
			return false
		}
	}
	return true
}

func plainLine(v string) bool {
	if v == "" || v[0] == '"' || v[0] == '`' || v[0] == ' ' || v[len(v)-1] == ' ' {
		return false
	}
	for i := 0; i < len(v); i++ {
		c := v[i]
		if c < ' ' || c == '#' || c >= 0x7f {
			return false
		}
	}
	return true
}

// SchemaTextStyle renders the spec; the style selects between the equivalent
// spellings of valued version attributes the grammar offers: 0 = quoted ATTR:
// lines, 1 = simple values in the "key value ...|version" prefix, 2 = unquoted
// ATTR: lines where the value allows it.
func (s *Spec) SchemaTextStyle(style int) string {
	var sb strings.Builder
	for _, p := range s.Pkgs {
		sb.WriteString(p.Name)
		sb.WriteByte('\n')
		for _, v := range p.Vers {
			var flags []string
			inPrefix := map[int]bool{}
			for _, kv := range v.Attrs {
				if k := version.AttrKey(kv.K); verFlag[k] {
					flags = append(flags, strings.ToLower(k.String()))
				} else if style == 1 && simpleToken(kv.V) {
					flags = append(flags, strings.ToLower(k.String()), kv.V)
					inPrefix[kv.K] = true
				}
			}
			sb.WriteByte('\t')
			if len(flags) > 0 {
				sb.WriteString(strings.Join(flags, " "))
				sb.WriteByte('|')
			}
			sb.WriteString(v.V)
			sb.WriteByte('\n')
			for _, kv := range v.Attrs {
				k := version.AttrKey(kv.K)
				if verFlag[k] || inPrefix[kv.K] {
					continue
				}
				if style == 2 && plainLine(kv.V) {
					fmt.Fprintf(&sb, "\t\tATTR: %s %s\n", k.String(), kv.V)
					continue
				}
				fmt.Fprintf(&sb, "\t\tATTR: %s %s\n", k.String(), strconv.Quote(kv.V))
			}
			for _, r := range v.Reqs {
				sb.WriteString("\t\t")
				if len(r.Type) > 0 {
					sb.WriteString(DepTypeText(r.Type))
					sb.WriteByte('|')
				}
				sb.WriteString(r.Name)
				sb.WriteByte('@')
				sb.WriteString(r.Req)
				sb.WriteByte('\n')
			}
		}
	}
	return sb.String()
}

// FromSchema converts a parsed schema into a Spec.
func FromSchema(sc *schema.Schema, sys resolve.System) *Spec {
	s := &Spec{Sys: sys}
	for _, p := range sc.Packages {
		sp := Pkg{Name: p.Name}
		for _, v := range p.Versions {
			sv := Ver{V: v.Version, Attrs: AttrKVs(v.Attr)}
			for _, r := range v.Requirements {
				sv.Reqs = append(sv.Reqs, Req{Name: r.Name, Req: r.Version, Type: TypeKVs(r.Type)})
			}
			sp.Vers = append(sp.Vers, sv)
		}
		s.Pkgs = append(s.Pkgs, sp)
	}
	return s
}

// CorpusEntry is one universe from the repository's testdata with the roots
// its tests resolve.
type CorpusEntry struct {
	Name  string
	Spec  *Spec
	Roots []Ref
}

// LoadCorpus reads every "-- Universe" block of
// <repo>/util/resolve/<sys>/testdata/*.data (recursively) and the roots the
// "-- Test" blocks resolve in it. Universes that do not parse, have duplicate
// version keys, or are only used as part of a multi-registry test keep all
// their versions as roots.
func LoadCorpus(repo string, sys resolve.System, dir string, maxVersions int) ([]CorpusEntry, error) {
	var files []string
	root := filepath.Join(repo, "util/resolve", dir, "testdata")
	err := filepath.Walk(root, func(p string, info os.FileInfo, err error) error {
		if err != nil {
			return err
		}
		if !info.IsDir() && strings.HasSuffix(p, ".data") {
			files = append(files, p)
		}
		return nil
	})
	if err != nil {
		return nil, err
	}
	sort.Strings(files)
	var out []CorpusEntry
	for _, f := range files {
		b, err := os.ReadFile(f)
		if err != nil {
			return nil, err
		}
		lines := strings.Split(string(b), "\n")
		type test struct{ uni, name, ver string }
		var tests []test
		unis := map[string]string{}
		var order []string
		for i := 0; i < len(lines); i++ {
			l := strings.TrimSpace(lines[i])
			ll := strings.ToLower(l)
			switch {
			case strings.HasPrefix(ll, "-- universe "):
				name := strings.TrimSpace(l[len("-- universe "):])
				var body []string
				for i++; i < len(lines) && !strings.HasPrefix(strings.ToLower(strings.TrimSpace(lines[i])), "-- end"); i++ {
					body = append(body, lines[i])
				}
				unis[name] = strings.Join(body, "\n")
				order = append(order, name)
			case strings.HasPrefix(ll, "-- test "):
				var t test
				for i++; i < len(lines) && !strings.HasPrefix(strings.ToLower(strings.TrimSpace(lines[i])), "-- end"); i++ {
					tl := strings.TrimSpace(lines[i])
					tll := strings.ToLower(tl)
					if strings.HasPrefix(tll, "resolve ") {
						f := strings.Fields(tl)
						if len(f) == 3 {
							t.name, t.ver = f[1], f[2]
						}
					} else if strings.HasPrefix(tll, "universe ") {
						t.uni = strings.TrimSpace(tl[len("universe "):])
					}
				}
				tests = append(tests, t)
			}
		}
		for _, name := range order {
			sc, err := schema.New(unis[name], sys)
			if err != nil {
				continue
			}
			spec := FromSchema(sc, sys)
			n := 0
			dup := false
			seen := map[resolve.VersionKey]bool{}
			for pi, p := range spec.Pkgs {
				for vi := range p.Vers {
					n++
					k := spec.VK(pi, vi)
					if seen[k] {
						dup = true
					}
					seen[k] = true
				}
			}
			if n == 0 || dup || (maxVersions > 0 && n > maxVersions) {
				continue
			}
			e := CorpusEntry{Name: filepath.Base(f) + ":" + name, Spec: spec}
			for _, t := range tests {
				if t.uni != name {
					continue
				}
				for pi, p := range spec.Pkgs {
					if p.Name != t.name {
						continue
					}
					for vi, v := range p.Vers {
						if v.V == t.ver {
							e.Roots = append(e.Roots, Ref{pi, vi})
						}
					}
				}
			}
			if len(e.Roots) == 0 {
				e.Roots = spec.Refs()
			}
			out = append(out, e)
		}
	}
	return out, nil
}
