// Package uni holds the abstract universe specification the simulator
// generates, and everything derived from it: independent LocalClient twins,
// schema text, observational client dumps and isomorphism-invariant graph
// signatures.
package uni

import (
	"context"
	"fmt"
	"sort"
	"strconv"
	"strings"

	"deps.dev/util/resolve"
	"deps.dev/util/resolve/dep"
	"deps.dev/util/resolve/version"
)

// KV is one attribute: the numeric key of dep.AttrKey / version.AttrKey and
// its value.
type KV struct {
	K int    `json:"k"`
	V string `json:"v,omitempty"`
}

// Req is one requirement of a version.
type Req struct {
	Name string `json:"name"`
	Req  string `json:"req"`
	Type []KV   `json:"type,omitempty"`
}

// Ver is one concrete version.
type Ver struct {
	V     string `json:"v"`
	Attrs []KV   `json:"attrs,omitempty"`
	Reqs  []Req  `json:"reqs,omitempty"`
}

// Pkg is one package.
type Pkg struct {
	Name string `json:"name"`
	Vers []Ver  `json:"vers"`
}

// Spec is a package universe of one system.
type Spec struct {
	Sys  resolve.System `json:"sys"`
	Pkgs []Pkg          `json:"pkgs"`
}

// AllDepKeys lists every dependency attribute key.
var AllDepKeys = []dep.AttrKey{
	dep.Dev, dep.Opt, dep.Test, dep.XTest, dep.Framework, dep.Scope,
	dep.MavenClassifier, dep.MavenArtifactType, dep.MavenDependencyOrigin,
	dep.MavenExclusions, dep.EnabledDependencies, dep.KnownAs, dep.Environment,
	dep.Selector,
}

// AllVerKeys lists every version attribute key.
var AllVerKeys = []version.AttrKey{
	version.Blocked, version.Deleted, version.Error, version.Redirect,
	version.Features, version.DerivedFrom, version.NativeLibrary,
	version.Registries, version.SupportedFrameworks, version.DependencyGroups,
	version.Ident, version.Created, version.Tags,
}

// MkType builds a fresh dep.Type (its own map) from kvs.
func MkType(kvs []KV) dep.Type {
	var t dep.Type
	for _, kv := range kvs {
		t.AddAttr(dep.AttrKey(kv.K), kv.V)
	}
	return t
}

// MkAttr builds a fresh version.AttrSet from kvs.
func MkAttr(kvs []KV) version.AttrSet {
	var a version.AttrSet
	for _, kv := range kvs {
		a.SetAttr(version.AttrKey(kv.K), kv.V)
	}
	return a
}

// TypeKVs reads a dep.Type back into kvs (ascending key order as listed in
// AllDepKeys).
func TypeKVs(t dep.Type) []KV {
	var out []KV
	for _, k := range AllDepKeys {
		if v, ok := t.GetAttr(k); ok {
			out = append(out, KV{int(k), v})
		}
	}
	return out
}

// AttrKVs reads a version.AttrSet back into kvs.
func AttrKVs(a version.AttrSet) []KV {
	var out []KV
	for _, k := range AllVerKeys {
		if v, ok := a.GetAttr(k); ok {
			out = append(out, KV{int(k), v})
		}
	}
	return out
}

// TypeString renders a dep.Type canonically over all keys.
func TypeString(t dep.Type) string {
	var sb strings.Builder
	for _, k := range AllDepKeys {
		if v, ok := t.GetAttr(k); ok {
			sb.WriteString(strconv.Itoa(int(k)))
			sb.WriteByte('=')
			sb.WriteString(strconv.Quote(v))
			sb.WriteByte(';')
		}
	}
	return sb.String()
}

// AttrString renders a version.AttrSet canonically over all keys.
func AttrString(a version.AttrSet) string {
	var sb strings.Builder
	for _, k := range AllVerKeys {
		if v, ok := a.GetAttr(k); ok {
			sb.WriteString(strconv.Itoa(int(k)))
			sb.WriteByte('=')
			sb.WriteString(strconv.Quote(v))
			sb.WriteByte(';')
		}
	}
	return sb.String()
}

// VK returns the concrete version key of version vi of package pi.
func (s *Spec) VK(pi, vi int) resolve.VersionKey {
	return resolve.VersionKey{
		PackageKey:  resolve.PackageKey{System: s.Sys, Name: s.Pkgs[pi].Name},
		VersionType: resolve.Concrete,
		Version:     s.Pkgs[pi].Vers[vi].V,
	}
}

// Ref identifies one version in a spec.
type Ref struct{ P, V int }

// Refs lists all versions in definition order.
func (s *Spec) Refs() []Ref {
	var out []Ref
	for pi, p := range s.Pkgs {
		for vi := range p.Vers {
			out = append(out, Ref{pi, vi})
		}
	}
	return out
}

// MkReqs builds fresh RequirementVersions (own slice, own type maps).
func (s *Spec) MkReqs(rs []Req) []resolve.RequirementVersion {
	out := make([]resolve.RequirementVersion, 0, len(rs))
	for _, r := range rs {
		out = append(out, resolve.RequirementVersion{
			VersionKey: resolve.VersionKey{
				PackageKey:  resolve.PackageKey{System: s.Sys, Name: r.Name},
				VersionType: resolve.Requirement,
				Version:     r.Req,
			},
			Type: MkType(r.Type),
		})
	}
	return out
}

// BuildClient builds an independent LocalClient from the spec, adding the
// versions in the given order (nil = definition order). Nothing is shared
// between two clients built from the same spec.
func (s *Spec) BuildClient(order []Ref) *resolve.LocalClient {
	if order == nil {
		order = s.Refs()
	}
	c := resolve.NewLocalClient()
	for _, r := range order {
		v := s.Pkgs[r.P].Vers[r.V]
		c.AddVersion(resolve.Version{VersionKey: s.VK(r.P, r.V), AttrSet: MkAttr(v.Attrs)}, s.MkReqs(v.Reqs))
	}
	return c
}

// AllReqKeys returns every distinct requirement key mentioned in the spec,
// sorted.
func (s *Spec) AllReqKeys() []resolve.VersionKey {
	seen := map[resolve.VersionKey]bool{}
	var out []resolve.VersionKey
	for _, p := range s.Pkgs {
		for _, v := range p.Vers {
			for _, r := range v.Reqs {
				k := resolve.VersionKey{PackageKey: resolve.PackageKey{System: s.Sys, Name: r.Name}, VersionType: resolve.Requirement, Version: r.Req}
				if !seen[k] {
					seen[k] = true
					out = append(out, k)
				}
			}
		}
	}
	resolve.SortVersionKeys(out)
	return out
}

// AllPkgKeys returns every package defined or mentioned in the spec, sorted.
func (s *Spec) AllPkgKeys() []resolve.PackageKey {
	seen := map[string]bool{}
	var names []string
	add := func(n string) {
		if !seen[n] {
			seen[n] = true
			names = append(names, n)
		}
	}
	for _, p := range s.Pkgs {
		add(p.Name)
		for _, v := range p.Vers {
			for _, r := range v.Reqs {
				add(r.Name)
			}
		}
	}
	sort.Strings(names)
	out := make([]resolve.PackageKey, len(names))
	for i, n := range names {
		out[i] = resolve.PackageKey{System: s.Sys, Name: n}
	}
	return out
}

func verString(v resolve.Version) string {
	return v.VersionKey.Version + "{" + AttrString(v.AttrSet) + "}"
}

func reqString(r resolve.RequirementVersion) string {
	return r.Name + "@" + r.Version + "{" + TypeString(r.Type) + "}"
}

// Dump renders everything a client reports for the spec's keys: Versions for
// every package, Version and Requirements for every concrete version, and
// MatchingVersions for every requirement. Two clients that report the same
// things have equal dumps.
func (s *Spec) Dump(c resolve.Client) string {
	ctx := context.Background()
	var sb strings.Builder
	for _, pk := range s.AllPkgKeys() {
		vs, err := c.Versions(ctx, pk)
		fmt.Fprintf(&sb, "Versions(%s):", pk.Name)
		if err != nil {
			fmt.Fprintf(&sb, " ERR %v", err)
		}
		for _, v := range vs {
			sb.WriteByte(' ')
			sb.WriteString(verString(v))
		}
		sb.WriteByte('\n')
	}
	for pi, p := range s.Pkgs {
		for vi := range p.Vers {
			vk := s.VK(pi, vi)
			v, err := c.Version(ctx, vk)
			fmt.Fprintf(&sb, "Version(%s %s):", vk.Name, vk.Version)
			if err != nil {
				fmt.Fprintf(&sb, " ERR %v", err)
			} else {
				sb.WriteByte(' ')
				sb.WriteString(verString(v))
			}
			sb.WriteByte('\n')
			rs, err := c.Requirements(ctx, vk)
			fmt.Fprintf(&sb, "Requirements(%s %s):", vk.Name, vk.Version)
			if err != nil {
				fmt.Fprintf(&sb, " ERR %v", err)
			}
			for _, r := range rs {
				sb.WriteByte(' ')
				sb.WriteString(reqString(r))
			}
			sb.WriteByte('\n')
		}
	}
	for _, rk := range s.AllReqKeys() {
		ms, err := c.MatchingVersions(ctx, rk)
		fmt.Fprintf(&sb, "Matching(%s@%s):", rk.Name, rk.Version)
		if err != nil {
			fmt.Fprintf(&sb, " ERR %v", err)
		}
		for _, v := range ms {
			sb.WriteByte(' ')
			sb.WriteString(verString(v))
		}
		sb.WriteByte('\n')
	}
	return sb.String()
}

// FirstDiff returns the first differing line of two dumps.
func FirstDiff(a, b string) string {
	la, lb := strings.Split(a, "\n"), strings.Split(b, "\n")
	for i := 0; i < len(la) || i < len(lb); i++ {
		var x, y string
		if i < len(la) {
			x = la[i]
		}
		if i < len(lb) {
			y = lb[i]
		}
		if x != y {
			return fmt.Sprintf("want %q got %q", x, y)
		}
	}
	return ""
}
