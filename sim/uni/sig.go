package uni

import (
	"fmt"
	"hash/fnv"
	"sort"
	"strings"

	"deps.dev/util/resolve"
)

func h64(parts ...string) uint64 {
	h := fnv.New64a()
	for _, p := range parts {
		h.Write([]byte(p))
		h.Write([]byte{0})
	}
	return h.Sum64()
}

// Signature computes an isomorphism-invariant signature of a resolution
// result: the graph-level error plus the sorted multiset of node colours after
// |V| rounds of Weisfeiler-Leman refinement over the rooted, labelled
// multigraph (labels: version key, sorted node errors, and per edge the
// direction, requirement string and canonical dependency type). Isomorphic
// graphs (any node numbering, any edge or error order) get equal signatures,
// so unequal signatures mean genuinely different graphs. Duration is ignored.
// Graph.Canon is deliberately not used.
func Signature(g *resolve.Graph, err error) string {
	if err != nil {
		return "ERR:" + err.Error()
	}
	if g == nil {
		return "NIL"
	}
	n := len(g.Nodes)
	col := make([]uint64, n)
	for i, nd := range g.Nodes {
		var es []string
		for _, e := range nd.Errors {
			es = append(es, e.Req.String()+"\x01"+e.Error)
		}
		sort.Strings(es)
		root := "n"
		if i == 0 {
			root = "r"
		}
		col[i] = h64(root, nd.Version.String(), strings.Join(es, "\x02"))
	}
	type half struct {
		dir  byte
		lbl  string
		peer int
	}
	adj := make([][]half, n)
	bad := 0
	for _, e := range g.Edges {
		if int(e.From) < 0 || int(e.From) >= n || int(e.To) < 0 || int(e.To) >= n {
			bad++
			continue
		}
		lbl := e.Requirement + "\x01" + TypeString(e.Type)
		adj[e.From] = append(adj[e.From], half{'>', lbl, int(e.To)})
		adj[e.To] = append(adj[e.To], half{'<', lbl, int(e.From)})
	}
	rounds := n
	if rounds > 24 {
		rounds = 24
	}
	for r := 0; r < rounds; r++ {
		next := make([]uint64, n)
		for i := range col {
			items := make([]string, 0, len(adj[i]))
			for _, h := range adj[i] {
				items = append(items, fmt.Sprintf("%c%s\x01%016x", h.dir, h.lbl, col[h.peer]))
			}
			sort.Strings(items)
			next[i] = h64(fmt.Sprintf("%016x", col[i]), strings.Join(items, "\x02"))
		}
		col = next
	}
	cs := make([]string, n)
	for i, c := range col {
		cs[i] = fmt.Sprintf("%016x", c)
	}
	sort.Strings(cs)
	return fmt.Sprintf("G:n=%d,e=%d,bad=%d,err=%q,%016x", n, len(g.Edges), bad, g.Error, h64(cs...))
}

// Describe renders a graph for humans (used in replay files only).
func Describe(g *resolve.Graph, err error) string {
	if err != nil {
		return "error: " + err.Error()
	}
	if g == nil {
		return "<nil graph>"
	}
	var sb strings.Builder
	if g.Error != "" {
		fmt.Fprintf(&sb, "graph error: %s\n", g.Error)
	}
	for i, nd := range g.Nodes {
		fmt.Fprintf(&sb, "n%d %s %s", i, nd.Version.Name, nd.Version.Version)
		for _, e := range nd.Errors {
			fmt.Fprintf(&sb, " [err %s@%s: %s]", e.Req.Name, e.Req.Version, e.Error)
		}
		sb.WriteByte('\n')
	}
	es := make([]string, 0, len(g.Edges))
	for _, e := range g.Edges {
		es = append(es, fmt.Sprintf("n%d -> n%d %q %s", e.From, e.To, e.Requirement, TypeString(e.Type)))
	}
	sort.Strings(es)
	sb.WriteString(strings.Join(es, "\n"))
	return sb.String()
}
