// Command worker executes simulated runs for one property in one process and
// prints one JSON line per run. It must be built with -race and the overlay
// (see cmd/orch).
package main

import (
	"bufio"
	"encoding/json"
	"flag"
	"fmt"
	"os"
	"path/filepath"
	"runtime/debug"
	"strings"
	"time"

	"deps.dev/util/semver/verifhook"
	"verif/sim/kernel"
	"verif/sim/props"
	"verif/sim/racelog"
	"verif/sim/rt"
)

// ReplayFile is the on-disk replay format.
type ReplayFile struct {
	Property  string         `json:"property"`
	Seed      uint64         `json:"seed"`
	RunIndex  uint64         `json:"run_index"`
	Opts      rt.Opts        `json:"opts"`
	Tape      []uint32       `json:"tape"`
	Violation []rt.Violation `json:"violations"`
	Scenario  any            `json:"scenario,omitempty"`
	RaceText  []string       `json:"race_reports,omitempty"`
	Note      string         `json:"note,omitempty"`
}

type line struct {
	*rt.Result
	RaceReports []string `json:"race_reports,omitempty"`
	WallUs      int64    `json:"wall_us"`
}

// runOne executes one run. A panic that escapes the run while code under
// test is innermost on the stack (for instance while the harness takes the
// golden dump of a client) is a violation of the run; a panic inside the
// harness itself is an infrastructure error.
func runOne(prop string, t *kernel.Tape, o rt.Opts) (res *rt.Result) {
	defer func() {
		if x := recover(); x != nil {
			st := string(debug.Stack())
			inner := ""
			seenPanic := false
			for _, l := range strings.Split(st, "\n") {
				if strings.HasPrefix(l, "panic(") {
					seenPanic = true
					continue
				}
				if !seenPanic || strings.HasPrefix(l, "\t") || strings.HasPrefix(l, "runtime.") || strings.HasPrefix(l, "goroutine ") || l == "" {
					continue
				}
				inner = l
				break
			}
			if len(st) > 3000 {
				st = st[:3000]
			}
			res = &rt.Result{Prop: prop, Status: "ok", Config: "panic-outside-operation"}
			if strings.HasPrefix(inner, "deps.dev/") {
				res.Violations = []rt.Violation{{Kind: "panic", Key: "panic:outside-operation", Detail: fmt.Sprintf("panic while the harness was calling the code under test: %v\n%s", x, st)}}
			} else {
				res.Status = "harness-panic"
				res.Config = fmt.Sprintf("%v\n%s", x, st)
			}
		}
	}()
	kernel.ResetClock()
	return runProp(prop, t, o)
}

func runProp(prop string, t *kernel.Tape, o rt.Opts) *rt.Result {
	switch prop {
	case "C05":
		return props.RunC05(t, o)
	case "C14":
		return props.RunC14(t, o)
	case "C18":
		return props.RunC18(t, o)
	case "C19":
		return props.RunC19(t, o)
	}
	fmt.Fprintf(os.Stderr, "unknown property %q\n", prop)
	os.Exit(2)
	return nil
}

func dumpProbes(dir string) {
	bs, _ := json.Marshal(verifhook.Counts())
	os.WriteFile(filepath.Join(dir, fmt.Sprintf("counts-%d.json", os.Getpid())), bs, 0o644)
}

func main() {
	prop := flag.String("prop", "", "property id")
	seed := flag.Uint64("seed", 1, "batch seed (VERIF_SEED)")
	tier := flag.String("tier", "quick", "quick|thorough")
	from := flag.Uint64("from", 0, "first run index")
	to := flag.Uint64("to", 0, "one past the last run index")
	stride := flag.Uint64("stride", 1, "run indices i with i%stride==offset")
	offset := flag.Uint64("offset", 0, "")
	replay := flag.String("replay", "", "replay file (runs exactly one run from its tape)")
	detailEvery := flag.Uint64("detail-every", 0, "include tape and decoded scenario every N runs (samples)")
	repo := flag.String("repo", "/repo", "repository root (testdata corpus)")
	flag.Parse()

	kernel.TraceOn = os.Getenv("VERIF_TRACE") != ""
	if !kernel.RaceBuild {
		fmt.Fprintln(os.Stderr, "worker must be built with -race")
		os.Exit(2)
	}
	if pd := os.Getenv("VERIF_PROBES"); pd != "" {
		defer dumpProbes(pd)
	}
	rl := racelog.FromEnv()
	out := bufio.NewWriterSize(os.Stdout, 1<<20)
	defer out.Flush()
	enc := json.NewEncoder(out)

	emit := func(r *rt.Result, wall time.Duration) {
		l := line{Result: r, WallUs: wall.Microseconds()}
		reps := rl.Next()
		if len(r.RaceSteps) > 0 || len(reps) > 0 {
			if len(reps) == 0 {
				r.Violations = append(r.Violations, rt.Violation{Kind: "race", Key: "race:unreadable-report", Detail: "the race detector counted a report but the log could not be read"})
			}
			seen := map[string]bool{}
			for _, rep := range reps {
				l.RaceReports = append(l.RaceReports, rep.Text)
				kind := "race"
				if rep.Harness {
					kind = "harness-race"
				}
				key := kind + ":" + rep.Pair()
				if seen[key] {
					continue
				}
				seen[key] = true
				step := 0
				if len(r.RaceSteps) > 0 {
					step = r.RaceSteps[0].Step
				}
				r.Violations = append(r.Violations, rt.Violation{Kind: kind, Key: key, Step: step,
					Detail: "conflicting unsynchronised accesses by two logically concurrent operations: " + rep.Pair()})
			}
			if r.Status == "budget" || r.Status == "stalled" || r.Status == "foreign" {
				// a discarded run reports nothing
				r.Violations = nil
			}
		}
		if err := enc.Encode(l); err != nil {
			fmt.Fprintln(os.Stderr, err)
			os.Exit(2)
		}
		out.Flush()
	}

	if *replay != "" {
		b, err := os.ReadFile(*replay)
		if err != nil {
			fmt.Fprintln(os.Stderr, err)
			os.Exit(2)
		}
		var rf ReplayFile
		if err := json.Unmarshal(b, &rf); err != nil {
			fmt.Fprintln(os.Stderr, err)
			os.Exit(2)
		}
		o := rf.Opts
		o.WantDetail = true
		if o.Repo == "" {
			o.Repo = *repo
		}
		t0 := time.Now()
		t := kernel.NewReplayTape(rf.Tape)
		r := runOne(rf.Property, t, o)
		r.Index, r.Seed = rf.RunIndex, rf.Seed
		r.Tape = t.Recorded()
		r.TapeLen = t.Len()
		emit(r, time.Since(t0))
		return
	}

	var o rt.Opts
	if *tier == "thorough" {
		o = rt.ThoroughOpts()
	} else {
		o = rt.QuickOpts()
	}
	o.Repo = *repo
	for i := *from; i < *to; i++ {
		if i%*stride != *offset {
			continue
		}
		oo := o
		if *detailEvery > 0 && i%*detailEvery == 0 {
			oo.WantDetail = true
		}
		rs := kernel.Mix(*seed, *prop, i)
		t := kernel.NewTape(rs)
		t0 := time.Now()
		r := runOne(*prop, t, oo)
		if td := os.Getenv("VERIF_TRACE"); td != "" {
			os.WriteFile(filepath.Join(td, fmt.Sprintf("trace-%d-%d.txt", i, os.Getpid())), []byte(strings.Join(kernel.TraceLines(), "\n")+"\n"), 0o644)
		}
		r.Index, r.Seed = i, rs
		r.TapeLen = t.Len()
		if len(r.Violations) > 0 || len(r.RaceSteps) > 0 || oo.WantDetail {
			r.Tape = t.Recorded()
		}
		emit(r, time.Since(t0))
		if r.Status == "stalled" || r.Status == "hang" {
			// goroutines of the stalled run are still parked: this process
			// cannot be trusted any further; the orchestrator restarts after i.
			out.Flush()
			os.Exit(3)
		}
	}
}
