// Command orch is the check driver: it instruments and builds the worker from
// /repo's current working tree, fans simulated runs out over worker
// processes, aggregates evidence, minimises and records violations, and
// replays replay files.
package main

import (
	"bufio"
	"bytes"
	"encoding/json"
	"flag"
	"fmt"
	"os"
	"os/exec"
	"path/filepath"
	"sort"
	"strconv"
	"strings"
	"sync"
	"time"

	"verif/sim/overlay"
	"verif/sim/rt"
)

// verifDir is the root of the verification tree (the directory of ./check).
var verifDir = func() string {
	if v := os.Getenv("VERIF_DIR"); v != "" {
		return v
	}
	return "/verif"
}()

// outDir is where evidence and replay files go (VERIF_OUT overrides it for
// sensitivity experiments so that they do not overwrite committed evidence).
var outDir = func() string {
	if v := os.Getenv("VERIF_OUT"); v != "" {
		return v
	}
	return verifDir
}()

type resLine struct {
	rt.Result
	RaceReports []string `json:"race_reports,omitempty"`
	WallUs      int64    `json:"wall_us"`
}

type replayFile struct {
	Property  string         `json:"property"`
	Seed      uint64         `json:"seed"`
	RunIndex  uint64         `json:"run_index"`
	Opts      rt.Opts        `json:"opts"`
	Tape      []uint32       `json:"tape"`
	Violation []rt.Violation `json:"violations"`
	Scenario  any            `json:"scenario,omitempty"`
	RaceText  []string       `json:"race_reports,omitempty"`
	Note      string         `json:"note,omitempty"`
	// Slice is set for process-history violations: the run must be preceded
	// by the earlier runs of the same worker slice to reproduce.
	Slice *sliceInfo `json:"worker_slice,omitempty"`
}

type sliceInfo struct {
	Tier   string `json:"tier"`
	Stride uint64 `json:"stride"`
	Offset uint64 `json:"offset"`
}

func fatal2(format string, args ...any) {
	fmt.Printf(format+"\n", args...)
	os.Exit(2)
}

func goEnv() []string {
	env := os.Environ()
	env = append(env, "GOFLAGS=-mod=mod", "GOPROXY=off", "GOSUMDB=off", "GOTOOLCHAIN=local", "CGO_ENABLED=1")
	return env
}

type build struct {
	dir     string
	worker  string
	overlay *overlay.Report
	wall    time.Duration
}

func (b *build) cleanup() {
	if b != nil && b.dir != "" {
		os.RemoveAll(b.dir)
	}
}

// buildWorker instruments /repo's current tree through an overlay and builds
// the race-enabled worker. Failure here is infrastructure (exit 2), never a
// violation.
func buildWorker(repo string) *build {
	t0 := time.Now()
	dir, err := os.MkdirTemp("", "verif-sim-")
	if err != nil {
		fatal2("BUILD-FAILED mktemp: %v", err)
	}
	oj, rep, err := overlay.Generate(repo, dir)
	if err != nil {
		os.RemoveAll(dir)
		fatal2("BUILD-FAILED overlay: %v", err)
	}
	worker := filepath.Join(dir, "worker")
	args := []string{"build", "-race", "-tags", "verif", "-overlay", oj, "-o", worker}
	if pd := os.Getenv("VERIF_PROBES"); pd != "" {
		// generator audit only (tools/coverage.sh): reach probes at every
		// block of the code under test; the list of sites goes next to the
		// workers' counts. Not a check build (the counters order the tasks).
		os.MkdirAll(pd, 0o755)
		bs, _ := json.Marshal(rep.ProbeSites)
		os.WriteFile(filepath.Join(pd, "sites.json"), bs, 0o644)
	}
	if repo != "/repo" {
		// go.mod replaces the deps.dev modules with /repo/util/...; for another
		// tree use a rewritten copy of go.mod (and its go.sum) via -modfile.
		gm, err1 := os.ReadFile(filepath.Join(verifDir, "sim", "go.mod"))
		gs, err2 := os.ReadFile(filepath.Join(verifDir, "sim", "go.sum"))
		if err1 != nil || err2 != nil {
			os.RemoveAll(dir)
			fatal2("BUILD-FAILED reading go.mod/go.sum: %v %v", err1, err2)
		}
		mf := filepath.Join(dir, "go.mod")
		os.WriteFile(mf, []byte(strings.ReplaceAll(string(gm), "=> /repo/", "=> "+repo+"/")), 0o644)
		os.WriteFile(filepath.Join(dir, "go.sum"), gs, 0o644)
		args = append(args, "-modfile="+mf)
	}
	args = append(args, "./cmd/worker")
	cmd := exec.Command("go", args...)
	cmd.Dir = filepath.Join(verifDir, "sim")
	cmd.Env = goEnv()
	out, err := cmd.CombinedOutput()
	if err != nil {
		os.RemoveAll(dir)
		fatal2("BUILD-FAILED go build of the instrumented worker failed (this is not a property violation):\n%s", out)
	}
	if kd := os.Getenv("VERIF_KEEP_WORKER"); kd != "" {
		// debugging aid: a copy of the instrumented worker to run by hand
		if bs, err := os.ReadFile(worker); err == nil {
			os.WriteFile(kd, bs, 0o755)
		}
	}
	return &build{dir: dir, worker: worker, overlay: rep, wall: time.Since(t0)}
}

func goraceEnv(logPrefix string) string {
	return "GORACE=suppress_equal_stacks=0 suppress_equal_addresses=0 exitcode=0 halt_on_error=0 log_path=" + logPrefix
}

// runWorker runs one worker process and returns its result lines.
func runWorker(b *build, args []string, tag string, gomaxprocs int, timeout time.Duration) ([]resLine, int, error) {
	cmd := exec.Command(b.worker, args...)
	env := append(os.Environ(), goraceEnv(filepath.Join(b.dir, "race-"+tag)))
	if gomaxprocs > 0 {
		env = append(env, "GOMAXPROCS="+strconv.Itoa(gomaxprocs))
	}
	cmd.Env = env
	var stdout, stderr bytes.Buffer
	cmd.Stdout = &stdout
	cmd.Stderr = &stderr
	if err := cmd.Start(); err != nil {
		return nil, -1, err
	}
	done := make(chan error, 1)
	go func() { done <- cmd.Wait() }()
	var werr error
	select {
	case werr = <-done:
	case <-time.After(timeout):
		cmd.Process.Kill()
		<-done
		return nil, -1, fmt.Errorf("worker %s: watchdog timeout after %v", tag, timeout)
	}
	code := 0
	if werr != nil {
		if ee, ok := werr.(*exec.ExitError); ok {
			code = ee.ExitCode()
		} else {
			return nil, -1, werr
		}
	}
	var lines []resLine
	sc := bufio.NewScanner(&stdout)
	sc.Buffer(make([]byte, 1<<20), 1<<28)
	for sc.Scan() {
		var l resLine
		if err := json.Unmarshal(sc.Bytes(), &l); err != nil {
			return nil, code, fmt.Errorf("worker %s: bad output line: %v", tag, err)
		}
		lines = append(lines, l)
	}
	if code != 0 && code != 3 {
		return lines, code, fmt.Errorf("worker %s exited %d: %s", tag, code, strings.TrimSpace(stderr.String()))
	}
	return lines, code, nil
}

// ---------------------------------------------------------------- known findings

type known struct {
	findings map[string]string // "prop key" -> text
}

func loadKnown() *known {
	k := &known{findings: map[string]string{}}
	b, err := os.ReadFile(filepath.Join(verifDir, "known_findings.txt"))
	if err != nil {
		return k
	}
	for _, l := range strings.Split(string(b), "\n") {
		l = strings.TrimSpace(l)
		if !strings.HasPrefix(l, "finding:") {
			continue // "fixed:" lines and comments suppress nothing
		}
		f := strings.Fields(l[len("finding:"):])
		var prop, key string
		var rest []string
		for _, w := range f {
			switch {
			case strings.HasPrefix(w, "property=") && prop == "":
				prop = w[len("property="):]
			case strings.HasPrefix(w, "key=") && key == "":
				key = w[len("key="):]
			default:
				rest = append(rest, w)
			}
		}
		if prop != "" && key != "" {
			k.findings[prop+" "+key] = strings.Join(rest, " ")
		}
	}
	return k
}

// ---------------------------------------------------------------- tiers

type tierCfg struct {
	runs        uint64
	workers     int
	timeout     time.Duration
	detailEvery uint64
}

func tierFor(prop, tier string) tierCfg {
	quick := map[string]uint64{"C05": 8000, "C14": 6000, "C18": 3000, "C19": 6000}
	thorough := map[string]uint64{"C05": 120000, "C14": 300000, "C18": 80000, "C19": 300000}
	c := tierCfg{workers: 16, timeout: 10 * time.Minute, detailEvery: 997}
	if tier == "thorough" {
		c.runs = thorough[prop]
		c.timeout = 3 * time.Hour
		c.detailEvery = 9973
	} else {
		c.runs = quick[prop]
	}
	if v := os.Getenv("VERIF_RUNS"); v != "" {
		if n, err := strconv.ParseUint(v, 10, 64); err == nil {
			c.runs = n
		}
	}
	// sample enough detailed runs (with tapes) for the fresh-process comparison
	want := uint64(48)
	if tier == "thorough" {
		want = 300
	}
	if c.runs/want > 0 {
		c.detailEvery = c.runs / want
	} else {
		c.detailEvery = 1
	}
	if v := os.Getenv("VERIF_WORKERS"); v != "" {
		if n, err := strconv.Atoi(v); err == nil && n > 0 {
			c.workers = n
		}
	}
	return c
}

// ---------------------------------------------------------------- batch

type batch struct {
	lines   []resLine
	wall    time.Duration
	stalled int
}

func runBatch(b *build, prop, tier string, seed uint64, tc tierCfg, repo string) (*batch, error) {
	t0 := time.Now()
	var mu sync.Mutex
	var all []resLine
	var firstErr error
	stalled := 0
	var wg sync.WaitGroup
	for w := 0; w < tc.workers; w++ {
		wg.Add(1)
		go func(w int) {
			defer wg.Done()
			from := uint64(0)
			hangs := 0
			for attempt := 0; ; attempt++ {
				args := []string{"-prop", prop, "-seed", strconv.FormatUint(seed, 10), "-tier", tier,
					"-from", strconv.FormatUint(from, 10), "-to", strconv.FormatUint(tc.runs, 10),
					"-stride", strconv.Itoa(tc.workers), "-offset", strconv.Itoa(w),
					"-detail-every", strconv.FormatUint(tc.detailEvery, 10), "-repo", repo}
				lines, code, err := runWorker(b, args, fmt.Sprintf("w%d-%d", w, attempt), 0, tc.timeout)
				mu.Lock()
				all = append(all, lines...)
				if err != nil && firstErr == nil {
					firstErr = err
				}
				mu.Unlock()
				if err != nil || code != 3 || len(lines) == 0 {
					return
				}
				// the worker gave up after a stalled run: continue after it
				mu.Lock()
				stalled++
				mu.Unlock()
				from = lines[len(lines)-1].Index + 1
				if lines[len(lines)-1].Status == "hang" {
					// each hang costs seconds of real time; three reports from
					// one worker slice are enough, the rest of the slice is skipped
					if hangs++; hangs >= 3 {
						return
					}
				}
				if attempt > 50 {
					mu.Lock()
					if firstErr == nil {
						firstErr = fmt.Errorf("worker %d: too many stalled runs", w)
					}
					mu.Unlock()
					return
				}
			}
		}(w)
	}
	wg.Wait()
	if firstErr != nil {
		return nil, firstErr
	}
	sort.Slice(all, func(i, j int) bool { return all[i].Index < all[j].Index })
	return &batch{lines: all, wall: time.Since(t0), stalled: stalled}, nil
}

// ---------------------------------------------------------------- shrinking

func keysOf(vs []rt.Violation, kind string) map[string]bool {
	m := map[string]bool{}
	for _, v := range vs {
		if kind == "" || v.Kind == kind {
			m[v.Key] = true
		}
	}
	return m
}

// replayTape runs one tape in a fresh worker process.
func replayTape(b *build, rf *replayFile, tag string) (*resLine, error) {
	p := filepath.Join(b.dir, "cand-"+tag+".json")
	bs, _ := json.Marshal(rf)
	if err := os.WriteFile(p, bs, 0o644); err != nil {
		return nil, err
	}
	defer os.Remove(p)
	lines, _, err := runWorker(b, []string{"-replay", p, "-repo", rf.Opts.Repo}, "r"+tag, 0, 2*time.Minute)
	if err != nil {
		return nil, err
	}
	if len(lines) != 1 {
		return nil, fmt.Errorf("replay produced %d lines", len(lines))
	}
	return &lines[0], nil
}

// reproduces reports whether line shows a violation of the wanted kind whose
// key is one of want (for races: non-empty intersection of racing-pair sets).
func reproduces(l *resLine, kind string, want map[string]bool) bool {
	if l == nil || (l.Status != "ok" && l.Status != "hang") {
		return false
	}
	for _, v := range l.Violations {
		if v.Kind == kind && want[v.Key] {
			return true
		}
	}
	return false
}

// shrink minimises the tape: truncate the tail, delete chunks, zero and halve
// values; a candidate is accepted when a fresh process replaying it reports the
// same violation class. Candidates of one round run in parallel.
func shrink(b *build, rf *replayFile, kind string, want map[string]bool, budget int, deadline time.Time) (*replayFile, int) {
	cur := append([]uint32(nil), rf.Tape...)
	tried := 0
	attempts := 1
	if kind == "race" {
		attempts = 2
	}
	try := func(cands [][]uint32) int {
		if len(cands) == 0 {
			return -1
		}
		type out struct {
			i  int
			ok bool
		}
		ch := make(chan out, len(cands))
		sem := make(chan struct{}, 16)
		for i, c := range cands {
			go func(i int, c []uint32) {
				sem <- struct{}{}
				defer func() { <-sem }()
				ok := false
				for a := 0; a < attempts && !ok; a++ {
					r2 := *rf
					r2.Tape = c
					l, err := replayTape(b, &r2, fmt.Sprintf("%d-%d-%d", tried, i, a))
					ok = err == nil && reproduces(l, kind, want)
				}
				ch <- out{i, ok}
			}(i, c)
		}
		best := -1
		for range cands {
			o := <-ch
			if o.ok && (best == -1 || o.i < best) {
				best = o.i
			}
		}
		tried += len(cands)
		return best
	}
	over := func() bool { return tried >= budget || time.Now().After(deadline) }

	// 1. truncate the tail (binary search over prefixes, several at a time)
	for !over() && len(cur) > 0 {
		var cands [][]uint32
		for _, f := range []int{0, 1, 2, 4, 8, 16, 32} {
			n := len(cur) * f / 64
			if f == 0 {
				n = 0
			}
			if n < len(cur) {
				cands = append(cands, append([]uint32(nil), cur[:n]...))
			}
		}
		cands = append(cands, append([]uint32(nil), cur[:len(cur)-1]...))
		i := try(cands)
		if i < 0 {
			break
		}
		cur = cands[i]
	}
	// 2. delete chunks
	for _, size := range []int{64, 16, 8, 4, 2, 1} {
		for start := 0; start < len(cur) && !over(); {
			var cands [][]uint32
			var starts []int
			for k := 0; k < 16 && start+k*size < len(cur); k++ {
				s := start + k*size
				e := s + size
				if e > len(cur) {
					e = len(cur)
				}
				c := append(append([]uint32(nil), cur[:s]...), cur[e:]...)
				cands = append(cands, c)
				starts = append(starts, s)
			}
			i := try(cands)
			if i < 0 {
				start += 16 * size
				continue
			}
			cur = cands[i]
			start = starts[i]
		}
	}
	// 3. zero, then halve values
	for pass := 0; pass < 2; pass++ {
		for start := 0; start < len(cur) && !over(); {
			var cands [][]uint32
			var idx []int
			for k := start; k < len(cur) && len(cands) < 16; k++ {
				if cur[k] == 0 {
					continue
				}
				c := append([]uint32(nil), cur...)
				if pass == 0 {
					c[k] = 0
				} else {
					c[k] = cur[k] / 2
				}
				cands = append(cands, c)
				idx = append(idx, k)
			}
			if len(cands) == 0 {
				break
			}
			i := try(cands)
			if i < 0 {
				start = idx[len(idx)-1] + 1
				continue
			}
			cur = cands[i]
			start = idx[i] + 1
		}
	}
	// strip trailing zeros (a tape reads as 0 past its end)
	for len(cur) > 0 && cur[len(cur)-1] == 0 {
		cur = cur[:len(cur)-1]
	}
	out := *rf
	out.Tape = cur
	return &out, tried
}

// ---------------------------------------------------------------- process-history oracle

// crossProcess replays a sample of the batch's runs, each alone in a fresh
// process, and compares what they observed (digest) with what the same tape
// observed inside a long-lived worker after many other runs. A difference
// means some process-global state carried over between runs.
func crossProcess(b *build, prop, tier string, seed uint64, tc tierCfg, repo string, bt *batch, max int) (checked int, viols []*resLine, files []*replayFile, nondet int) {
	var cands []*resLine
	for i := range bt.lines {
		l := &bt.lines[i]
		if l.Status == "ok" && len(l.Tape) > 0 && len(l.Violations) == 0 && l.Digest != "" {
			cands = append(cands, l)
		}
	}
	// prefer late runs of each worker (most history behind them)
	sort.Slice(cands, func(i, j int) bool { return cands[i].Index > cands[j].Index })
	if len(cands) > max {
		cands = cands[:max]
	}
	type out struct {
		l  *resLine
		fl *resLine
	}
	ch := make(chan out, len(cands))
	sem := make(chan struct{}, 16)
	for i, l := range cands {
		go func(i int, l *resLine) {
			sem <- struct{}{}
			defer func() { <-sem }()
			rf := &replayFile{Property: prop, Seed: seed, RunIndex: l.Index, Opts: optsFor(tier, repo), Tape: l.Tape}
			fl, err := replayTape(b, rf, fmt.Sprintf("xp%d", i))
			if err != nil {
				fl = nil
			}
			ch <- out{l, fl}
		}(i, l)
	}
	for range cands {
		o := <-ch
		if o.fl == nil || o.fl.Status != "ok" {
			continue
		}
		checked++
		if o.fl.Digest != o.l.Digest {
			// Before this is called a dependence on process history, it must
			// be a repeatable one: the tape alone gives the same digest every
			// time, and the worker slice re-executed up to the run gives the
			// in-worker digest again. Otherwise the run is not a function of
			// its tape (code under test that blocks on channels can leave the
			// simulator a real-time window, DESIGN 10.3) and says nothing.
			rf := &replayFile{Property: prop, Seed: seed, RunIndex: o.l.Index, Opts: optsFor(tier, repo), Tape: o.l.Tape}
			stable := true
			for k := 0; k < 2 && stable; k++ {
				f2, err := replayTape(b, rf, fmt.Sprintf("xpc%d_%d", o.l.Index, k))
				stable = err == nil && f2 != nil && f2.Digest == o.fl.Digest
			}
			if stable && len(viols) < 2 {
				args := []string{"-prop", prop, "-seed", strconv.FormatUint(seed, 10), "-tier", tier, "-from", "0", "-to", strconv.FormatUint(o.l.Index+1, 10),
					"-stride", strconv.FormatUint(uint64(tc.workers), 10), "-offset", strconv.FormatUint(o.l.Index%uint64(tc.workers), 10), "-repo", repo}
				lines, _, err := runWorker(b, args, fmt.Sprintf("xps%d", o.l.Index), 0, time.Hour)
				stable = err == nil && len(lines) > 0 && lines[len(lines)-1].Index == o.l.Index && lines[len(lines)-1].Digest == o.l.Digest
			}
			if !stable {
				nondet++
				fmt.Printf("NONDETERMINISTIC-RUN property=%s run=%d: the run's observations are not a function of its tape (digest differs between repetitions); not judged\n", prop, o.l.Index)
				continue
			}
			v := rt.Violation{Kind: "process-history", Key: "process-history:" + o.l.Config, Step: 0,
				Detail: fmt.Sprintf("run %d observed digest %s inside a worker that had executed earlier runs, but %s when its tape is replayed alone in a fresh process: results depend on what ran earlier in the process (process-global state)", o.l.Index, o.l.Digest, o.fl.Digest)}
			o.l.Violations = append(o.l.Violations, v)
			viols = append(viols, o.l)
			files = append(files, &replayFile{Property: prop, Seed: seed, RunIndex: o.l.Index, Opts: optsFor(tier, repo), Tape: o.l.Tape,
				Violation: []rt.Violation{v}, Scenario: o.l.Scenario, Slice: &sliceInfo{Tier: tier, Stride: uint64(tc.workers), Offset: o.l.Index % uint64(tc.workers)},
				Note: "replay re-executes the worker slice up to this run and compares with a fresh-process replay of the tape"})
		}
	}
	return
}

// ---------------------------------------------------------------- evidence

func writeEvidence(prop, tier string, seed uint64, b *build, bt *batch, tc tierCfg, nviol int, knownHit []string, extra map[string]any) error {
	ev := map[string]any{
		"property_id": prop,
		"tier":        tier,
		"seed":        seed,
		"level":       "exploration",
		"wall_s":      bt.wall.Seconds() + b.wall.Seconds(),
		"violations":  nviol,
	}
	distinct := map[string]bool{}
	scheds := map[string]bool{}
	status := map[string]int{}
	configs := map[string]int{}
	faults := map[string]int{}
	probes := map[string]int{}
	var yields, switches int
	var simUs int64
	var samples []any
	for _, l := range bt.lines {
		status[l.Status]++
		if l.Status != "ok" {
			continue
		}
		configs[l.Config]++
		if l.NonTrivial {
			distinct[l.Distinct] = true
		}
		if l.SchedHash != "" && l.Switches > 0 {
			scheds[l.SchedHash] = true
		}
		yields += l.Yields
		switches += l.Switches
		simUs += l.SimTimeUs
		for k, v := range l.Faults {
			faults[k] += v
		}
		for k, v := range l.Probes {
			probes[k] += v
		}
		if l.Scenario != nil && len(samples) < 4 && l.NonTrivial {
			samples = append(samples, map[string]any{"run_index": l.Index, "run_seed": l.Seed, "config": l.Config, "tape_len": l.TapeLen, "yields": l.Yields, "switches": l.Switches, "scenario": l.Scenario})
		}
	}
	if len(samples) == 0 {
		for _, l := range bt.lines {
			if l.Scenario != nil {
				samples = append(samples, map[string]any{"run_index": l.Index, "config": l.Config, "scenario": l.Scenario})
				break
			}
		}
	}
	if len(samples) == 0 {
		samples = append(samples, "no detailed sample was recorded in this batch")
	}
	cov := map[string]any{
		"evaluations":             len(bt.lines),
		"distinct_nontrivial":     len(distinct),
		"rule":                    ruleFor(prop),
		"samples":                 samples,
		"runs_per_hour":           int(float64(len(bt.lines)) / bt.wall.Hours()),
		"seed_range":              fmt.Sprintf("run seeds = mix(VERIF_SEED=%d, %q, i) for i in [0,%d)", seed, prop, tc.runs),
		"simulated_time_ms":       simUs / 1000,
		"yields":                  yields,
		"context_switches":        switches,
		"distinct_interleavings":  len(scheds),
		"run_status":              status,
		"run_configs":             configs,
		"fault_counts":            faults,
		"faults_without_target":   faultsWithoutTarget(prop),
		"probes":                  probes,
		"race_build":              true,
		"workers":                 tc.workers,
		"stalled_worker_restarts": bt.stalled,
		"instrumentation": map[string]any{
			"lock_yield_sites":   b.overlay.LockSites,
			"sync_yield_sites":   b.overlay.SyncSites,
			"blocking_op_sites":  b.overlay.BlockSites,
			"lru_size_sites":     b.overlay.SizeSites,
			"go_statement_sites": b.overlay.GoSites,
			"select_sites":       b.overlay.SelectSites,
			"virtual_time_sites": b.overlay.TimeSites,
			"once_do_sites":      b.overlay.OnceSites,
			"files_rewritten":    b.overlay.Files,
		},
		"components":     componentsFor(prop),
		"known_findings": knownHit,
		"build_s":        b.wall.Seconds(),
	}
	if len(b.overlay.SizeSites) == 0 {
		cov["knobs_not_applied"] = []string{"pypi LRU capacity (no lru.New call found)"}
	}
	for k, v := range extra {
		cov[k] = v
	}
	ev["coverage"] = cov
	ev["assumptions"] = assumptionsFor(prop)
	bs, _ := json.MarshalIndent(ev, "", " ")
	os.MkdirAll(filepath.Join(outDir, "evidence"), 0o755)
	return os.WriteFile(filepath.Join(outDir, "evidence", prop+".json"), bs, 0o644)
}

func ruleFor(prop string) string {
	switch prop {
	case "C05":
		return "each run draws from one choice tape: system, universe (generated, or a testdata universe of /repo), insertion order, PyPI cache capacity, optional foreign prelude, task programs of Resolve calls and the schedule; non-trivial = at least one result graph with >=2 nodes and, in concurrent runs, at least one context switch inside an operation; distinct = distinct hash of (universe text, programs, schedule signature, insertion order, cache capacity)"
	case "C14":
		return "each run draws an operation history (<=60 AddVersion / Version / Versions / Requirements / MatchingVersions calls over a small key space, three systems) checked step by step against a map-based reference model, optionally followed by a forked phase of 2-4 concurrent read-only callers under the race oracle; non-trivial = at least one re-addition of an existing key with changed data that is read afterwards; distinct = distinct hash of the operation sequence and reader schedule"
	case "C18":
		return "each run draws an npm service universe (bundle trees to depth 3, aliases, scoped names), task programs of Resolve and raw client calls on one shared APIClient, and the schedule with RPC latencies; non-trivial = a bundle registered by one task and read by another, or >=2 tasks on overlapping roots with >=1 preemption; distinct = distinct hash of (service universe, programs, schedule signature)"
	case "C19":
		return "each run draws a history (<=40 new/set/add/clone/read operations over dep.Type and version.AttrSet handles, all keys, empty/plain/spaced/quoted values) checked step by step against a value-semantics model, plus text round trips and a forked phase mutating clone and original from different tasks; non-trivial = at least one clone followed by a mutation of either side and a later comparison; distinct = distinct hash of the operation sequence"
	}
	return ""
}

func componentsFor(prop string) map[string]any {
	real := []string{"resolve.LocalClient", "resolve.MatchRequirement / SortVersions / SortDependencies", "npm, maven, pypi resolvers", "pypi/internal/lru", "semver", "dep / version / internal/attr", "schema (text parser)"}
	sim := []string{"scheduler (cooperative, tape-driven, hidden hand-off edges)", "virtual clock + latency model at the resolve.Client seam"}
	if prop == "C18" {
		real = append(real, "resolve.APIClient", "deps.dev/api/v3 protobuf messages (proto.Marshal/Unmarshal per call)")
		sim = append(sim, "Insights service (in-process pb.InsightsClient; gRPC transport and codec not exercised)")
	}
	return map[string]any{"real_code": real, "simulated": sim}
}

func assumptionsFor(prop string) []string {
	a := []string{
		"the Go race detector is sound for the accesses it observes (happens-before based); edges hidden from it are only those of the simulator's own hand-off",
		"interleavings are explored at client-call, lock and operation granularity; a task runs atomically between two yields",
		"a clean batch is evidence over the sampled schedules/histories, not a proof",
	}
	if prop == "C05" {
		a = append(a, "the reference for 'same graph' is the implementation itself run serially on a fresh twin (decides purity, not correctness of the algorithm)")
	}
	if prop == "C05" || prop == "C18" {
		a = append(a, "aborted-operation faults (cancellation, failing client calls / RPCs): what the aborted operation itself returns is not judged, nor is a clean operation overlapping in time with one whose calls were failing; every other operation, and every successful call, is judged as in a fault-free run")
	}
	if prop == "C18" {
		a = append(a, "the reference LocalClient universe is produced by an independent model of the documented bundle/alias mapping written from the statement of C18")
	}
	return a
}

// ---------------------------------------------------------------- check

func slug(s string) string {
	var sb strings.Builder
	for _, c := range s {
		switch {
		case c >= 'a' && c <= 'z', c >= 'A' && c <= 'Z', c >= '0' && c <= '9', c == '.', c == '-':
			sb.WriteRune(c)
		default:
			sb.WriteByte('_')
		}
	}
	out := sb.String()
	if len(out) > 80 {
		out = out[:80]
	}
	return out
}

func cmdCheck(prop, tier string, seed uint64, repo string) int {
	b := buildWorker(repo)
	defer b.cleanup()
	tc := tierFor(prop, tier)
	bt, err := runBatch(b, prop, tier, seed, tc, repo)
	if err != nil {
		fmt.Printf("INFRASTRUCTURE-ERROR %v\n", err)
		return 2
	}
	if uint64(len(bt.lines)) != tc.runs {
		// a worker slice is given up after three hangs (each costs seconds of
		// real time and the verdict is already a violation); otherwise every
		// run must be accounted for
		hangs := 0
		for _, l := range bt.lines {
			if l.Status == "hang" {
				hangs++
			}
		}
		if hangs == 0 {
			fmt.Printf("INFRASTRUCTURE-ERROR expected %d runs, got %d\n", tc.runs, len(bt.lines))
			return 2
		}
		fmt.Printf("NOTE %d of %d runs executed: worker slices were given up after three hangs each\n", len(bt.lines), tc.runs)
	}
	kn := loadKnown()
	xpMax := 32
	if tier == "thorough" {
		xpMax = 256
	}
	xpChecked, _, xpFiles, xpNondet := crossProcess(b, prop, tier, seed, tc, repo, bt, xpMax)
	xpByIndex := map[uint64]*replayFile{}
	for _, f := range xpFiles {
		xpByIndex[f.RunIndex] = f
	}
	type hit struct {
		line *resLine
		v    rt.Violation
	}
	newByKey := map[string]*hit{}
	var newKeys []string
	knownSeen := map[string]int{}
	harness := 0
	violatingRuns := 0
	for i := range bt.lines {
		l := &bt.lines[i]
		if len(l.Violations) > 0 {
			violatingRuns++
		}
		for _, v := range l.Violations {
			if v.Kind == "harness-race" {
				harness++
				if harness == 1 {
					fmt.Printf("HARNESS-RACE run=%d %s\n%s\n", l.Index, v.Key, strings.Join(l.RaceReports, "\n"))
				}
				continue
			}
			if _, ok := kn.findings[prop+" "+v.Key]; ok {
				knownSeen[v.Key]++
				continue
			}
			if _, ok := newByKey[v.Key]; !ok {
				newByKey[v.Key] = &hit{l, v}
				newKeys = append(newKeys, v.Key)
			}
		}
	}
	var knownHit []string
	for k, n := range knownSeen {
		knownHit = append(knownHit, fmt.Sprintf("%s (%d runs)", k, n))
	}
	sort.Strings(knownHit)
	for _, k := range sortedKeys(knownSeen) {
		fmt.Printf("KNOWN-FINDING: property=%s key=%s %s (seen in %d runs)\n", prop, k, kn.findings[prop+" "+k], knownSeen[k])
	}
	if harness > 0 {
		fmt.Printf("INFRASTRUCTURE-ERROR %d race reports inside the harness itself; nothing is reported\n", harness)
		return 2
	}

	var replayPaths []string
	extra := map[string]any{}
	if len(newKeys) > 0 {
		// Minimise and record one replay per distinct new key (at most 3).
		sort.Strings(newKeys)
		deadline := time.Now().Add(150 * time.Second)
		n := 0
		covered := map[string]bool{}
		for _, key := range newKeys {
			if covered[key] {
				continue
			}
			if n >= 3 {
				break
			}
			n++
			h := newByKey[key]
			if h.v.Kind == "process-history" {
				dir := filepath.Join(outDir, "replays", prop)
				os.MkdirAll(dir, 0o755)
				p := filepath.Join(dir, slug(key)+".json")
				bs, _ := json.MarshalIndent(xpByIndex[h.line.Index], "", " ")
				os.WriteFile(p, bs, 0o644)
				fmt.Printf("VIOLATION property=%s replay=%s\n  kind=%s key=%s run=%d\n  %s\n", prop, p, h.v.Kind, key, h.line.Index, h.v.Detail)
				continue
			}
			rf := &replayFile{Property: prop, Seed: seed, RunIndex: h.line.Index, Opts: optsFor(tier, repo), Tape: h.line.Tape}
			want := keysOf(h.line.Violations, h.v.Kind)
			for k := range want {
				if _, isKnown := kn.findings[prop+" "+k]; isKnown {
					delete(want, k)
				}
			}
			min, tried := shrink(b, rf, h.v.Kind, want, 400, deadline)
			// final replay of the minimised tape: record what it shows
			fl, err := replayTape(b, min, "final")
			if err != nil || !reproduces(fl, h.v.Kind, want) {
				// keep the original tape if the minimised one does not hold up
				min = rf
				fl, _ = replayTape(b, min, "final0")
			}
			if h.v.Kind != "race" && !reproduces(fl, h.v.Kind, want) {
				// Not even the original tape shows it when replayed alone in
				// a fresh process: the violation needs what ran earlier in
				// the worker process (process-global state of the code under
				// test). The replay file then re-executes the worker slice
				// up to this run.
				min = rf
				min.Slice = &sliceInfo{Tier: tier, Stride: uint64(tc.workers), Offset: h.line.Index % uint64(tc.workers)}
				min.Violation = h.line.Violations
				min.Scenario = h.line.Scenario
				min.Note = "the violation does not show when this tape is replayed alone in a fresh process: it depends on the runs executed earlier in the same worker process; replay re-executes that worker slice up to this run"
				fl = nil
				dir := filepath.Join(outDir, "replays", prop)
				os.MkdirAll(dir, 0o755)
				p := filepath.Join(dir, slug(key)+".json")
				bs, _ := json.MarshalIndent(min, "", " ")
				os.WriteFile(p, bs, 0o644)
				replayPaths = append(replayPaths, p)
				fmt.Printf("VIOLATION property=%s replay=%s\n", prop, p)
				fmt.Printf("  kind=%s key=%s run=%d (only after the earlier runs of its worker process)\n  %s\n", h.v.Kind, key, h.line.Index, strings.ReplaceAll(firstLines(h.v.Detail, 12), "\n", "\n  "))
				continue
			}
			if fl != nil {
				min.Violation = fl.Violations
				min.Scenario = fl.Scenario
				min.RaceText = fl.RaceReports
				for _, v := range fl.Violations {
					covered[v.Key] = true
				}
			} else {
				min.Violation = h.line.Violations
				min.Scenario = h.line.Scenario
			}
			min.Note = fmt.Sprintf("minimised from %d to %d tape entries with %d candidate replays; replay with: ./check replay <this file>", len(rf.Tape), len(min.Tape), tried)
			dir := filepath.Join(outDir, "replays", prop)
			os.MkdirAll(dir, 0o755)
			p := filepath.Join(dir, slug(key)+".json")
			bs, _ := json.MarshalIndent(min, "", " ")
			os.WriteFile(p, bs, 0o644)
			replayPaths = append(replayPaths, p)
			fmt.Printf("VIOLATION property=%s replay=%s\n", prop, p)
			fmt.Printf("  kind=%s key=%s run=%d\n  %s\n", h.v.Kind, key, h.line.Index, strings.ReplaceAll(firstLines(h.v.Detail, 12), "\n", "\n  "))
		}
		extra["new_violation_keys"] = newKeys
	}
	extra["fresh_process_replays_compared"] = xpChecked
	extra["nondeterministic_runs_not_judged"] = xpNondet
	if err := writeEvidence(prop, tier, seed, b, bt, tc, len(newKeys), knownHit, extra); err != nil {
		fmt.Printf("INFRASTRUCTURE-ERROR writing evidence: %v\n", err)
		return 2
	}
	ok := 0
	for _, l := range bt.lines {
		if l.Status == "ok" {
			ok++
		}
	}
	fmt.Printf("property=%s tier=%s seed=%d runs=%d ok=%d wall=%.1fs build=%.1fs new_violations=%d known=%d violating_runs=%d\n", prop, tier, seed, len(bt.lines), ok, bt.wall.Seconds(), b.wall.Seconds(), len(newKeys), len(knownSeen), violatingRuns)
	for _, l := range bt.lines {
		if l.Status == "harness-panic" {
			fmt.Printf("INFRASTRUCTURE-ERROR run %d: panic inside the harness: %s\n", l.Index, l.Config)
			return 2
		}
		if l.Status == "generator-error" {
			fmt.Printf("INFRASTRUCTURE-ERROR run %d: the scenario generator produced an invalid scenario (%s); nothing is reported\n", l.Index, l.Config)
			return 2
		}
	}
	if ok < len(bt.lines)/2 {
		fmt.Printf("INFRASTRUCTURE-ERROR fewer than half of the runs completed (budget/stall): the batch decides nothing\n")
		return 2
	}
	if len(newKeys) > 0 {
		return 1
	}
	return 0
}

func firstLines(s string, n int) string {
	ls := strings.Split(s, "\n")
	if len(ls) > n {
		ls = append(ls[:n], "…")
	}
	return strings.Join(ls, "\n")
}

func sortedKeys(m map[string]int) []string {
	ks := make([]string, 0, len(m))
	for k := range m {
		ks = append(ks, k)
	}
	sort.Strings(ks)
	return ks
}

func optsFor(tier, repo string) rt.Opts {
	o := rt.QuickOpts()
	if tier == "thorough" {
		o = rt.ThoroughOpts()
	}
	o.Repo = repo
	return o
}

// ---------------------------------------------------------------- replay

func cmdReplay(path, repo string) int {
	bs, err := os.ReadFile(path)
	if err != nil {
		fatal2("cannot read replay file: %v", err)
	}
	var rf replayFile
	if err := json.Unmarshal(bs, &rf); err != nil {
		fatal2("bad replay file: %v", err)
	}
	// the tree under test is always the one this command was started for; the
	// path recorded in the file may be a scratch tree that no longer exists
	rf.Opts.Repo = repo
	b := buildWorker(repo)
	defer b.cleanup()
	if rf.Slice != nil {
		args := []string{"-prop", rf.Property, "-seed", strconv.FormatUint(rf.Seed, 10), "-tier", rf.Slice.Tier, "-from", "0", "-to", strconv.FormatUint(rf.RunIndex+1, 10),
			"-stride", strconv.FormatUint(rf.Slice.Stride, 10), "-offset", strconv.FormatUint(rf.Slice.Offset, 10), "-repo", repo}
		lines, _, err := runWorker(b, args, "slice", 0, time.Hour)
		if err != nil || len(lines) == 0 {
			fatal2("INFRASTRUCTURE-ERROR %v", err)
		}
		inSlice := lines[len(lines)-1]
		if len(rf.Violation) > 0 && rf.Violation[0].Kind != "process-history" {
			// a violation that needs the earlier runs of its worker process
			if inSlice.Index == rf.RunIndex && reproduces(&inSlice, rf.Violation[0].Kind, keysOf(rf.Violation, rf.Violation[0].Kind)) {
				fmt.Printf("VIOLATION property=%s replay=%s\n", rf.Property, path)
				for _, v := range inSlice.Violations {
					fmt.Printf("  kind=%s key=%s (run %d, after the earlier runs of its worker slice)\n  %s\n", v.Kind, v.Key, rf.RunIndex, strings.ReplaceAll(firstLines(v.Detail, 12), "\n", "\n  "))
				}
				return 1
			}
			fmt.Printf("REPLAY-DIVERGED property=%s replay=%s: the worker slice re-executed up to run %d does not show the recorded violation\n", rf.Property, path, rf.RunIndex)
			return 2
		}
		fresh, err := replayTape(b, &rf, "fresh")
		if err != nil {
			fatal2("INFRASTRUCTURE-ERROR %v", err)
		}
		if inSlice.Index == rf.RunIndex && inSlice.Digest != fresh.Digest {
			fmt.Printf("VIOLATION property=%s replay=%s\n  kind=process-history key=%s\n  run %d: digest %s after the earlier runs of its worker slice, %s alone in a fresh process\n", rf.Property, path, rf.Violation[0].Key, rf.RunIndex, inSlice.Digest, fresh.Digest)
			return 1
		}
		fmt.Printf("REPLAY-CLEAN property=%s replay=%s: the run observes the same in its worker slice and alone\n", rf.Property, path)
		return 0
	}
	want := map[string]bool{}
	kind := ""
	for _, v := range rf.Violation {
		if kind == "" {
			kind = v.Kind
		}
	}
	want = keysOf(rf.Violation, "")
	// A replay is a function of its tape and the code - unless the code under
	// test is itself nondeterministic (Go's map iteration order, the shadow
	// state of the race detector): up to three attempts, the first that shows
	// the recorded violation counts.
	attempts := 3
	var last *resLine
	for a := 0; a < attempts; a++ {
		l, err := replayTape(b, &rf, fmt.Sprintf("replay%d", a))
		if err != nil {
			fatal2("INFRASTRUCTURE-ERROR %v", err)
		}
		last = l
		for _, v := range l.Violations {
			if want[v.Key] {
				fmt.Printf("VIOLATION property=%s replay=%s\n  kind=%s key=%s\n  %s\n", rf.Property, path, v.Kind, v.Key, strings.ReplaceAll(firstLines(v.Detail, 30), "\n", "\n  "))
				for _, t := range l.RaceReports {
					fmt.Println(t)
				}
				return 1
			}
		}
	}
	if last != nil && len(last.Violations) == 0 {
		fmt.Printf("REPLAY-CLEAN property=%s replay=%s: the recorded violation does not occur on this tree (status=%s)\n", rf.Property, path, last.Status)
		return 0
	}
	fmt.Printf("REPLAY-DIVERGED property=%s replay=%s: a different violation than recorded was observed\n", rf.Property, path)
	if last != nil {
		for _, v := range last.Violations {
			fmt.Printf("  observed kind=%s key=%s\n", v.Kind, v.Key)
		}
	}
	return 2
}

// ---------------------------------------------------------------- determinism self-test

func cmdDeterminism(prop string, seed uint64, n uint64, repo string) int {
	b := buildWorker(repo)
	defer b.cleanup()
	type sigT struct {
		status, sched, distinct, keys string
		tapeLen                       int
	}
	sigOf := func(l resLine) sigT {
		var ks []string
		for _, v := range l.Violations {
			if v.Kind != "race" {
				ks = append(ks, v.Key)
			}
		}
		race := ""
		for _, v := range l.Violations {
			if v.Kind == "race" {
				race = "race"
			}
		}
		sort.Strings(ks)
		return sigT{l.Status, l.SchedHash, l.Distinct + "/" + l.Digest, strings.Join(ks, ",") + race, l.TapeLen}
	}
	var ref []sigT
	var refLines []resLine
	bad := 0
	procs := 0
	for rep, gmp := range []int{1, 4, 16, 2, 8, 16} {
		var wg sync.WaitGroup
		var mu sync.Mutex
		var all []resLine
		var ferr error
		workers := []int{1, 4, 16, 3, 7, 16}[rep]
		for w := 0; w < workers; w++ {
			wg.Add(1)
			go func(w int) {
				defer wg.Done()
				from := uint64(0)
				for attempt := 0; attempt < 200; attempt++ {
					args := []string{"-prop", prop, "-seed", strconv.FormatUint(seed, 10), "-tier", "quick", "-from", strconv.FormatUint(from, 10), "-to", strconv.FormatUint(n, 10),
						"-stride", strconv.Itoa(workers), "-offset", strconv.Itoa(w), "-repo", repo}
					lines, code, err := runWorker(b, args, fmt.Sprintf("d%d-%d-%d", rep, w, attempt), gmp, 30*time.Minute)
					mu.Lock()
					all = append(all, lines...)
					if err != nil && ferr == nil {
						ferr = err
					}
					mu.Unlock()
					if err != nil || code != 3 || len(lines) == 0 {
						break
					}
					// the worker gave up after a stalled or hung run: go on after it
					from = lines[len(lines)-1].Index + 1
				}
			}(w)
		}
		wg.Wait()
		procs += workers
		if ferr != nil {
			fmt.Printf("INFRASTRUCTURE-ERROR %v\n", ferr)
			return 2
		}
		sort.Slice(all, func(i, j int) bool { return all[i].Index < all[j].Index })
		sigs := make([]sigT, len(all))
		for i, l := range all {
			sigs[i] = sigOf(l)
		}
		if rep == 0 {
			ref = sigs
			refLines = all
			continue
		}
		if len(sigs) != len(ref) {
			fmt.Printf("NONDETERMINISM: repetition %d produced %d runs, expected %d\n", rep, len(sigs), len(ref))
			return 1
		}
		for i := range sigs {
			if sigs[i] != ref[i] {
				bad++
				if bad <= 5 {
					fmt.Printf("NONDETERMINISM: run %d differs at GOMAXPROCS=%d workers=%d: %+v vs %+v\n", i, gmp, workers, ref[i], sigs[i])
					a, _ := json.Marshal(refLines[i].Scenario)
					b, _ := json.Marshal(all[i].Scenario)
					os.WriteFile(fmt.Sprintf("/tmp/nondet-%s-%d-a.json", prop, i), a, 0o644)
					os.WriteFile(fmt.Sprintf("/tmp/nondet-%s-%d-b.json", prop, i), b, 0o644)
				}
			}
		}
	}
	fmt.Printf("determinism property=%s seeds=%d repetitions=6 processes=%d (GOMAXPROCS 1,4,16,2,8,16; workers 1,4,16,3,7,16) mismatches=%d\n", prop, n, procs, bad)
	if bad > 0 {
		return 1
	}
	return 0
}

func main() {
	if len(os.Args) < 2 {
		fatal2("usage: orch check|replay|determinism ...")
	}
	sub := os.Args[1]
	fs := flag.NewFlagSet(sub, flag.ExitOnError)
	prop := fs.String("prop", "", "property id")
	tier := fs.String("tier", "", "quick|thorough (default $VERIF_TIER or quick)")
	file := fs.String("file", "", "replay file")
	defRepo := "/repo"
	if v := os.Getenv("VERIF_REPO"); v != "" {
		defRepo = v
	}
	repo := fs.String("repo", defRepo, "repository under test (VERIF_REPO)")
	n := fs.Uint64("n", 200, "seeds for the determinism self-test")
	fs.Parse(os.Args[2:])
	seed := uint64(1)
	if v := os.Getenv("VERIF_SEED"); v != "" {
		if s, err := strconv.ParseUint(v, 10, 64); err == nil {
			seed = s
		} else if s, err := strconv.ParseInt(v, 10, 64); err == nil {
			seed = uint64(s)
		}
	}
	if *tier == "" {
		*tier = os.Getenv("VERIF_TIER")
	}
	if *tier != "thorough" {
		*tier = "quick"
	}
	switch sub {
	case "check":
		os.Exit(cmdCheck(*prop, *tier, seed, *repo))
	case "replay":
		os.Exit(cmdReplay(*file, *repo))
	case "determinism":
		os.Exit(cmdDeterminism(*prop, seed, *n, *repo))
	case "build":
		// debugging aid: build the instrumented worker and keep it
		b := buildWorker(*repo)
		fmt.Println(b.worker)
		os.Exit(0)
	}
	fatal2("unknown subcommand %q", sub)
}

// faultsWithoutTarget lists the fault kinds of the technique that have nothing
// to act on for the property (reported as such instead of as zero counts).
func faultsWithoutTarget(prop string) []string {
	out := []string{"process crash/restart (no durable state; its library-level counterpart, an operation aborted midway, is injected for C05 and C18)", "disk errors / torn or lost writes", "message loss", "message duplication", "partition", "allocation failure"}
	if prop == "C05" || prop == "C18" {
		out = append(out, "clock skew between nodes (one process, one clock; clock JUMPS between operations and slow calls on the virtual clock are injected, see fault_counts.clock_jumps_between_operations)")
	} else {
		out = append(out, "clock skew / jumps (nothing in this property's code reads a clock)")
	}
	return out
}
