package main

import (
	"fmt"

	pb "deps.dev/api/v3"
	"deps.dev/util/resolve"
	"deps.dev/util/resolve/npm"
	"github.com/anishathalye/porcupine"
	"google.golang.org/grpc"
	"google.golang.org/protobuf/proto"
)

var _ grpc.CallOption
var _ = proto.Clone
var _ pb.InsightsClient
var _ = porcupine.CheckOperations

func main() {
	c := resolve.NewLocalClient()
	r := npm.NewResolver(c)
	fmt.Println(r != nil)
}
